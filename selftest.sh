#!/bin/sh
# Self-test of the machinery (DESIGN §8): every must-fail change of mutants/ must make the named property's check
# report a VIOLATION; every harmless edit must leave the related checks silent.  Works on scratch copies of /repo;
# evidence and replays of these runs go to a scratch directory, never to /verif/evidence.
# usage: ./selftest.sh [must-fail|harmless|all]
cd "$(dirname "$0")" || exit 2
export GOFLAGS=-mod=mod GOPROXY=off GOSUMDB=off GOTOOLCHAIN=local
what=${1:-all}
out=$(mktemp -d /tmp/govc-selftest-out-XXXXXX)
base=$(mktemp -d /tmp/govc-selftest-base-XXXXXX)   # one snapshot of /repo for the whole run
rsync -a --exclude .git /repo/ $base/
miss=0; alarm=0; n=0
props_for_file() {
  case "$1" in
    int.go|long.go) echo C07;; double.go) echo C08;; date.go) echo C10;; string.go|binary.go) echo C09;;
    encoder.go) echo "C11 C12 C13";; decoder.go) echo "C06 C14";; pool.go) echo C17;; boolean.go) echo C01;;
    list.go|object.go|map.go) echo "C01 C02 C14";; *) echo C01;;
  esac
}
python3 - <<'PY' > $out/list.txt
import json
for c in json.load(open('mutants/corpus.json')):
    print(c['kind'], c['name'], c['property'] or '-', c['file'])
PY
while read kind name prop file; do
  [ "$what" != all ] && [ "$what" != "$kind" ] && continue
  scratch=$(mktemp -d /tmp/govc-selftest-repo-XXXXXX)
  rsync -a $base/ $scratch/
  if ! (cd $scratch && patch -p1 -s < /verif/mutants/$kind/$name.patch); then echo "$kind $name: patch does not apply (corpus is stale: rerun mutants/make_corpus.py)"; rm -rf $scratch; continue; fi
  n=$((n+1))
  if [ "$kind" = must-fail ]; then
    res=$(./bin/govc check -prop $prop -repo $scratch -verif /verif -out $out 2>&1); rc=$?
    if echo "$res" | grep -q '^VIOLATION'; then echo "must-fail $name [$prop]: caught ($(echo "$res" | grep '^VIOLATION' | head -1 | sed 's/.*obligation=//'))"; else echo "must-fail $name [$prop]: MISSED (exit $rc) $(echo "$res" | grep 'UNDEC\|STALE\|ENGINE' | head -2 | tr '\n' ';')"; miss=$((miss+1)); fi
  else
    for p in $(props_for_file $file); do
      res=$(./bin/govc check -prop $p -repo $scratch -verif /verif -out $out 2>&1); rc=$?
      if [ $rc -ne 0 ] || echo "$res" | grep -q '^VIOLATION'; then echo "harmless $name [$p]: FALSE ALARM (exit $rc) $(echo "$res" | grep '^VIOLATION\|ENGINE' | head -2 | tr '\n' ';')"; alarm=$((alarm+1)); else echo "harmless $name [$p]: silent $(echo "$res" | grep -c 'UNDEC\|STALE') undecided"; fi
    done
  fi
  rm -rf $scratch
done < $out/list.txt
rm -rf $out $base
echo "SELFTEST cases=$n missed=$miss false_alarms=$alarm"
[ $miss -eq 0 ] && [ $alarm -eq 0 ]
