#!/bin/sh
# usage: tools_standin.sh <property id> [seed]  — run the bounded stand-in of a property against /repo (overlay, nothing written to /repo)
export GOFLAGS=-mod=mod GOPROXY=off GOSUMDB=off GOTOOLCHAIN=local
id=$1; seed=${2:-1}
ov=$(mktemp /tmp/govc-ov-XXXXXX.json)
printf '{"Replace":{"/repo/zz_govc_standin_test.go":"/verif/harness/zz_govc_standin_test.go"}}' > "$ov"
(cd /repo && GOVC_STANDIN=$id GOVC_SEED=$seed go test -overlay "$ov" -vet=off -count=1 -timeout 600s -run '^TestGovcStandin$' -v . 2>&1 | grep -a -v "DEBUG\]" ); rc=$?
rm -f "$ov"; exit $rc
