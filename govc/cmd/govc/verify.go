package main

// Per-function verification driver: builds the initial symbolic state from the
// contract, explores all paths, emits ensures/frame obligations at returns.

import (
	"fmt"
	"go/types"
	"os"
	"sort"
	"strings"

	"golang.org/x/tools/go/ssa"
)

type FuncReport struct {
	Key      string
	Paths    int
	Obligs   []*Obligation
	Unsup    string   // non-empty: function is outside the supported subset
	Stale    []string // stale loop clauses
	Errors   []string
	Trusted  string
	Abstract bool
}

func (m *Machine) findFunc(key string) *ssa.Function {
	for fn := range ssaAllFunctions(m.prog, m.pkg) {
		if funcKey(fn) == key {
			return fn
		}
	}
	return nil
}

var allFuncsCache map[*ssa.Function]bool

func ssaAllFunctions(prog *ssa.Program, pkg *ssa.Package) map[*ssa.Function]bool {
	if allFuncsCache != nil {
		return allFuncsCache
	}
	res := map[*ssa.Function]bool{}
	var addFn func(fn *ssa.Function)
	addFn = func(fn *ssa.Function) {
		if fn == nil || res[fn] {
			return
		}
		res[fn] = true
		for _, an := range fn.AnonFuncs {
			addFn(an)
		}
	}
	for _, mem := range pkg.Members {
		switch x := mem.(type) {
		case *ssa.Function:
			addFn(x)
		case *ssa.Type:
			for _, t := range []types.Type{x.Type(), types.NewPointer(x.Type())} {
				ms := prog.MethodSets.MethodSet(t)
				for i := 0; i < ms.Len(); i++ {
					fn := prog.MethodValue(ms.At(i))
					if fn != nil && fn.Pkg == pkg && fn.Synthetic == "" {
						addFn(fn)
					}
				}
			}
		}
	}
	allFuncsCache = res
	return res
}

type verifyOpts struct {
	safety     bool
	safetyProp []string
	allocCheck bool
	onlyProps  map[string]bool // nil: all clauses
}

func (m *Machine) verifyFunction(key string, fc *FuncContract, opts verifyOpts) (rep *FuncReport) {
	rep = &FuncReport{Key: key}
	fn := m.findFunc(key)
	if fn == nil {
		rep.Unsup = "ORPHAN: no function " + key + " in the package"
		return
	}
	if fc != nil && fc.Trusted != "" {
		rep.Trusted = fc.Trusted
		return
	}
	start := len(m.obligs)
	m.errs = nil
	defer func() {
		rep.Obligs = append(rep.Obligs, m.obligs[start:]...)
		m.obligs = m.obligs[:start]
		if m.cur != nil {
			rep.Paths = m.cur.paths
			rep.Stale = m.cur.stale
		}
		rep.Errors = append(rep.Errors, m.errs...)
		for _, o := range rep.Obligs {
			if o.Abstract {
				rep.Abstract = true
			}
		}
		if r := recover(); r != nil {
			if u, ok := r.(unsupported); ok {
				rep.Unsup = u.msg
				return
			}
			// an internal error of the engine on this function: the function is undecided, not the whole run broken
			rep.Unsup = fmt.Sprintf("engine error: %v", r)
			return
		}
	}()
	m.cur = &runCtx{fn: fn, fc: fc, key: key, params: map[string]Value{}, ptypes: map[string]types.Type{}, noSafety: !opts.safety, allocCheck: opts.allocCheck, freshTerms: map[string]bool{}}
	m.safetyProps = opts.safetyProp
	st := &State{mem: map[cellKey]Value{}, ghost: map[string]Value{}}
	fr := &Frame{fn: fn, regs: map[ssa.Value]Value{}, active: map[*ssa.BasicBlock]*loopCtx{}}
	for _, p := range fn.Params {
		v := m.freshValue(p.Name(), p.Type())
		if sl, ok := v.(*SliceV); ok {
			m.sliceWF(st, sl)
			if ss := seqSortFor(sl.Obj.Elem); ss != SObj {
				m.objFull[sl.Obj] = m.packTerm(st, sl, ss)
			}
		}
		if sv, ok := v.(*StructV); ok {
			for _, f := range sv.F {
				if fsl, ok := f.(*SliceV); ok {
					m.sliceWF(st, fsl)
				}
			}
		}
		fr.regs[p] = v
		m.cur.params[p.Name()] = v
		m.cur.ptypes[p.Name()] = p.Type()
		m.cur.inputs = append(m.cur.inputs, inputTerms(m, st, v)...)
	}
	for _, fv := range fn.FreeVars {
		v := m.freshValue(fv.Name(), fv.Type())
		fr.regs[fv] = v
		if m.cur.freeVars == nil {
			m.cur.freeVars = map[string]bool{}
		}
		m.cur.freeVars[fv.Name()] = true
		m.cur.params[fv.Name()] = v
		m.cur.ptypes[fv.Name()] = fv.Type()
	}
	if len(fn.Blocks) == 0 {
		rep.Unsup = "no body"
		return
	}
	m.cur.entryObjN = m.objN
	fr.block = fn.Blocks[0]
	c := &Config{st: st, top: fr}
	m.cur.old = st // requires are evaluated in the entry state
	if fc != nil && contractMentions(fc, "@in", "@pos") {
		m.inputState(st)
		in := Sym("ghost0.in", SBytes)
		m.cur.inputs = append(m.cur.inputs, app(SBV64, "blen", in), Sym("ghost0.pos", SBV64))
		for i := 0; i < 40; i++ {
			m.cur.inputs = append(m.cur.inputs, Select(app(SArr8, "barr", in), BVLitI(int64(i), 64)))
		}
	}
	env := m.baseEnv(c)
	if fc != nil {
		for _, r := range fc.Requires {
			g, err := m.evalBool(env, r.Expr)
			if err != nil {
				rep.Errors = append(rep.Errors, fmt.Sprintf("requires: %v", err))
				continue
			}
			st.assume(g)
		}
	}
	if fc != nil {
		m.structuralClauses(c, fn, fc)
	}
	// vacuity: the precondition must be satisfiable
	m.obligs = append(m.obligs, &Obligation{Fn: key, Kind: "requires-sat", PC: append([]Term(nil), st.pc...), Goal: TTrue, ExpectSat: true})
	m.cur.old = st.clone()
	// materialise ghosts mentioned by the contract in the entry state so that old() sees them
	m.explore(c, func(c *Config, results []Value) {
		m.atReturn(c, fn, fc, results, opts)
	})
	m.reachObligations(fn)
	return
}

func inputTerms(m *Machine, st *State, v Value) []Term {
	switch x := v.(type) {
	case Term:
		if x.Sort.IsBV() || x.Sort.IsFP() || x.Sort == SBool {
			return []Term{x}
		}
		if x.Sort == STime {
			return []Term{app(SBV64, "t.sec", x), app(SBV64, "t.nsec", x)}
		}
	case *SliceV:
		if x.Obj.Elem == SBV8 {
			ts := []Term{x.Len}
			arr := m.loadArr(st, x.Obj)
			for i := 0; i < 12; i++ {
				ts = append(ts, Select(arr, BVLitI(int64(i), 64)))
			}
			return ts
		}
	}
	return nil
}

// bindLocals makes the source-level locals of fn visible in env at the program point (block rb of the frame on
// top of c): the definition that dominates the point, or the only one executed on this path.
func (m *Machine) bindLocals(c *Config, fn *ssa.Function, env *Env, rb *ssa.BasicBlock) {
	// source-level locals whose definition dominates this return are visible to postconditions
	// (ghost-out style: e.g. the address and kind computed by checkEncodeRefMap)
	for name, vals := range m.debugNames(fn) {
		_, taken := env.vars[name]
		var best ssa.Value
		for _, v := range vals {
			ins, ok := v.(ssa.Instruction)
			if !ok {
				continue
			}
			if b := ins.Block(); b == rb || b.Dominates(rb) {
				if best == nil {
					best = v
				} else if bi := best.(ssa.Instruction); bi.Block().Dominates(b) {
					best = v
				}
			}
		}
		if best == nil {
			// no dominating definition: the variable is still determined when exactly one of its
			// definitions was executed on this path (a local of one switch arm)
			var only ssa.Value
			n := 0
			for _, v := range vals {
				if _, ok := c.top.regs[v]; ok && v != only {
					only = v
					n++
				}
			}
			if n == 1 {
				best = only
			}
		}
		if best != nil {
			if val, ok := c.top.regs[best]; ok {
				cv := CV{V: val, Signed: isSigned(best.Type()), Typ: best.Type()}
				env.vars["now."+name] = cv // now(x): the value of the variable x at this return
				if !taken {
					env.vars[name] = cv
				}
				continue
			}
		}
		if taken {
			continue
		}
		// the local has no value on this path: an arbitrary value (clauses guarded by the
		// path's own condition are unaffected)
		if len(vals) > 0 {
			func() {
				defer func() { recover() }()
				t := vals[0].Type()
				env.vars[name] = CV{V: m.freshValue("undef."+name, t), Signed: isSigned(t), Typ: t}
			}()
		}
	}
}

func (m *Machine) atReturn(c *Config, fn *ssa.Function, fc *FuncContract, results []Value, opts verifyOpts) {
	if os.Getenv("GOVC_TRACE") != "" {
		fmt.Fprintf(os.Stderr, "TRACE return of %s in block %d (%s) path %d dead=%v pc=%d\n", fn.Name(), c.top.block.Index, c.top.block.Comment, m.cur.paths, c.st.dead, len(c.st.pc))
	}
	if fc == nil {
		return
	}
	env := m.baseEnv(c)
	m.bindLocals(c, fn, env, c.top.block)
	m.bindResults(env, fn.Signature, results)
	m.cur.curResults = results
	m.regionEnv = env
	defer func() { m.cur.curResults = nil; m.regionEnv = nil }()
	// vacuity guard: remember the path conditions per return site
	if !c.st.dead {
		if ret, ok := c.top.block.Instrs[len(c.top.block.Instrs)-1].(*ssa.Return); ok {
			if m.cur.retPCs == nil {
				m.cur.retPCs = map[*ssa.Return][][]Term{}
			}
			if len(m.cur.retPCs[ret]) < 600 {
				m.cur.retPCs[ret] = append(m.cur.retPCs[ret], append([]Term(nil), c.st.pc...))
			}
		}
	}
	if m.concord {
		ob := &Obligation{Fn: m.cur.key, Kind: "path-cover", PC: append([]Term(nil), c.st.pc...), Goal: TTrue, ExpectSat: true,
			Abstract: c.st.abstract, Path: m.cur.paths, Inputs: m.cur.inputs, Ctx: m.cur, Results: results, RetState: c.st}
		if pv, ok := c.st.ghost["@pos"].(Term); ok {
			ob.PosTerm = &pv
		}
		m.obligs = append(m.obligs, ob)
	}
	m.applySets(env, fc.Sets, c.st)
	for _, e := range append(append([]*Clause{}, fc.Ensures...), fc.Proves...) {
		if opts.onlyProps != nil && !propsIntersect(e.Props, opts.onlyProps) {
			continue
		}
		g, err := m.evalBool(env, e.Expr)
		if err != nil {
			m.errs = append(m.errs, fmt.Sprintf("ensures [%s]: %v", e.Label, err))
			continue
		}
		m.emit(c, "ensures", e.Label, e.Props, g, "", e.Src)
	}
	// a contract without an assigns clause assigns nothing: its callers assume exactly that
	m.frameCheck(c, fn, fc)
	if fc.Covers != "" {
		m.coverageCheck(c, fn, fc)
	}
}

// coverageCheck (C11-R1): every field of the covered receiver is assigned on
// this path or declared config in the contract.
func (m *Machine) coverageCheck(c *Config, fn *ssa.Function, fc *FuncContract) {
	pv, ok := m.cur.params[fc.Covers].(*PtrV)
	if !ok || pv.Obj == nil {
		m.errs = append(m.errs, "covers: "+fc.Covers+" is not a pointer parameter")
		return
	}
	st, ok := pv.Obj.Typ.Underlying().(*types.Struct)
	if !ok {
		m.errs = append(m.errs, "covers: not a struct")
		return
	}
	cfg := map[string]bool{}
	for _, f := range fc.Config {
		cfg[f] = true
	}
	for i := 0; i < st.NumFields(); i++ {
		name := st.Field(i).Name()
		if cfg[name] {
			continue
		}
		written := c.st.written[cellKey{pv.Obj, pathKey([]int{i})}]
		m.emit(c, "field-coverage", name, []string{"C11"}, mkBool(written), "", "every field of "+fc.Covers+" is assigned by "+funcKey(fn)+" or declared config")
	}
}

func propsIntersect(ps []string, set map[string]bool) bool {
	for _, p := range ps {
		if set[p] {
			return true
		}
	}
	return false
}

// frameCheck: every ghost and every cell of a parameter-rooted object that
// differs from the entry state must be listed in the assigns clause.
func (m *Machine) frameCheck(c *Config, fn *ssa.Function, fc *FuncContract) {
	old := m.cur.old
	allowed := map[string]bool{}
	for _, a := range fc.Assigns {
		allowed[a] = true
	}
	var names []string
	for name := range c.st.ghost {
		if strings.HasPrefix(name, "@map:") || strings.HasPrefix(name, "@mapfresh:") || name == "@maphavocall" || strings.HasPrefix(name, "@ch:") {
			continue
		}
		names = append(names, name)
	}
	sort.Strings(names)
	for _, name := range names {
		if allowed[name] || ghostImmutable[name] {
			continue
		}
		nv, ok1 := c.st.ghost[name].(Term)
		ov, ok2 := old.ghost[name].(Term)
		if !ok1 {
			continue
		}
		if !ok2 {
			ov = m.syms.named("ghost0."+strings.TrimPrefix(name, "@"), nv.Sort)
		}
		if nv.S == ov.S {
			continue
		}
		m.emit(c, "frame", name, []string{"C11", "C12"}, Eq(nv, ov), "", "assigns "+strings.Join(fc.Assigns, ", "))
	}
	// map contents: every map whose contents differ from the entry state must be listed as mapof(...)
	allowedMaps := map[string]bool{}
	env := m.baseEnv(c)
	for a := range allowed {
		if strings.HasPrefix(a, "mapof(") && strings.HasSuffix(a, ")") {
			if e, err := parseExpr(a[len("mapof(") : len(a)-1]); err == nil {
				if cv, err := m.eval(env.withState(old), e); err == nil {
					if t, ok := cv.V.(Term); ok {
						allowedMaps[t.S] = true
					}
				}
			}
		}
	}
	var mkeys []string
	for k := range c.st.ghost {
		if strings.HasPrefix(k, "@map:") {
			mkeys = append(mkeys, k)
		}
	}
	sort.Strings(mkeys)
	for _, k := range mkeys {
		ref := strings.TrimPrefix(k, "@map:")
		if allowedMaps[ref] || m.cur.freshTerms[ref] {
			continue
		}
		nm := c.st.ghost[k].(*mapContent)
		var om *mapContent
		if o, ok := old.ghost[k].(*mapContent); ok {
			om = o
		} else {
			// first touched after entry: its entry contents are the canonical initial symbols
			om = &mapContent{has: Sym(sanitize("map.has0."+sanitize(ref)), nm.has.Sort), get: Sym(sanitize("map.get0."+sanitize(ref)), nm.get.Sort), size: app(SBV64, "map.size0", Sym(ref, "MapRef"))}
		}
		if nm.has.S == om.has.S && nm.get.S == om.get.S && nm.size.S == om.size.S {
			continue
		}
		m.emit(c, "frame", "mapof("+ref+")", []string{"C11", "C12"}, And(Eq(nm.has, om.has), Eq(nm.get, om.get), Eq(nm.size, om.size)), "", "assigns "+strings.Join(fc.Assigns, ", "))
	}
	// parameter-rooted cells
	for pname, pv := range m.cur.params {
		p, ok := pv.(*PtrV)
		if !ok || p.Obj == nil {
			continue
		}
		var keys []cellKey
		for k := range c.st.mem {
			if k.obj == p.Obj {
				keys = append(keys, k)
			}
		}
		sort.Slice(keys, func(i, j int) bool { return keys[i].path < keys[j].path })
		for _, k := range keys {
			loc := pname + fieldPathName(p.Obj, k.path)
			if allowed[loc] || strings.HasPrefix(k.path, "#") {
				continue
			}
			nv := c.st.mem[k]
			ov, had := old.mem[k]
			if !had {
				// cell first touched after entry: it was read (materialised) or written
				continue
			}
			if same, goal := m.sameValue(c.st, nv, ov); !same {
				m.emit(c, "frame", loc, []string{"C11", "C12"}, goal, "", "assigns "+strings.Join(fc.Assigns, ", "))
			}
		}
	}
}

func fieldPathName(obj *Obj, path string) string {
	if path == "" {
		return ""
	}
	var idx []int
	for _, s := range strings.Split(strings.TrimPrefix(path, "."), ".") {
		var i int
		fmt.Sscanf(s, "%d", &i)
		idx = append(idx, i)
	}
	return pathName(obj, idx)
}

func (m *Machine) sameValue(st *State, a, b Value) (bool, Term) {
	switch x := a.(type) {
	case Term:
		y, ok := b.(Term)
		if !ok {
			return false, TFalse
		}
		if x.S == y.S {
			return true, TTrue
		}
		return false, Eq(x, y)
	case *SliceV:
		y, ok := b.(*SliceV)
		if !ok {
			return false, TFalse
		}
		if x.Obj == y.Obj && x.Len.S == y.Len.S && x.Off.S == y.Off.S {
			return true, TTrue
		}
		return false, TFalse
	case *PtrV:
		y, ok := b.(*PtrV)
		return ok && x.Obj == y.Obj, TFalse
	}
	return a == b, TFalse
}

func contractMentions(fc *FuncContract, names ...string) bool {
	has := func(src string) bool {
		for _, n := range names {
			if strings.Contains(src, n) {
				return true
			}
		}
		return false
	}
	for _, c := range fc.Requires {
		if has(c.Src) {
			return true
		}
	}
	for _, c := range fc.Ensures {
		if has(c.Src) {
			return true
		}
	}
	for _, a := range fc.Assigns {
		if has(a) {
			return true
		}
	}
	for _, e := range fc.Lets {
		if has(e.String()) {
			return true
		}
	}
	return false
}

// structuralClauses: obligations over the shape of the SSA (C17 P1): no loops,
// calls only to the listed callees ("dynamic" = call of a function value).
func (m *Machine) structuralClauses(c *Config, fn *ssa.Function, fc *FuncContract) {
	if fc.NoLoops {
		m.emit(c, "structure", "no-loops", []string{"C17"}, mkBool(len(m.loopsOf(fn).list) == 0), "", "the function contains no loop")
	}
	if fc.HasCallsOnly {
		allowed := map[string]bool{}
		for _, a := range fc.CallsOnly {
			allowed[a] = true
		}
		for _, b := range fn.Blocks {
			for _, ins := range b.Instrs {
				call, ok := ins.(ssa.CallInstruction)
				if !ok {
					continue
				}
				com := call.Common()
				name := "dynamic"
				if com.IsInvoke() {
					name = ifaceMethodKey(com)
				} else if bi, ok := com.Value.(*ssa.Builtin); ok {
					name = "builtin:" + bi.Name()
				} else if callee := com.StaticCallee(); callee != nil {
					name = funcKey(callee)
					if callee.Pkg != m.pkg {
						name = callee.String()
					}
				}
				_, isGo := ins.(*ssa.Go)
				_, isDefer := ins.(*ssa.Defer)
				ok2 := allowed[name] && !isGo && !isDefer
				m.emit(c, "structure", "calls-only:"+name, []string{"C17"}, mkBool(ok2), m.site(ins), "calls only: "+strings.Join(fc.CallsOnly, ", "))
			}
		}
	}
}

// applySets performs the ghost assignments of a contract ("sets @g = e").
func (m *Machine) applySets(env *Env, sets []GhostSet, st *State) {
	for _, gs := range sets {
		cv, err := m.eval(env, gs.Expr)
		if err != nil {
			if env.atCallSite && strings.Contains(err.Error(), "unknown identifier") {
				// ghost code over the callee's locals: callers rely on the assigns/ensures instead
				continue
			}
			m.errs = append(m.errs, fmt.Sprintf("sets %s: %v", gs.Ghost, err))
			continue
		}
		s, ok := ghostSorts[gs.Ghost]
		if !ok {
			m.errs = append(m.errs, "sets: unknown ghost "+gs.Ghost)
			continue
		}
		st.ghost[gs.Ghost] = m.asSort(env, cv, s)
	}
}

// reachObligations: every return statement that some explored path reaches must be
// reachable under the assumed contracts and invariants (guard against vacuous proofs:
// contradictory assumptions make every obligation behind them trivially "discharged").
func (m *Machine) reachObligations(fn *ssa.Function) {
	if m.cur == nil || len(m.cur.retPCs) == 0 {
		return
	}
	var rets []*ssa.Return
	for r := range m.cur.retPCs {
		rets = append(rets, r)
	}
	sort.Slice(rets, func(i, j int) bool { return rets[i].Pos() < rets[j].Pos() })
	for i, r := range rets {
		var alts []Term
		for _, pc := range m.cur.retPCs[r] {
			alts = append(alts, And(pc...))
		}
		m.obligs = append(m.obligs, &Obligation{Fn: m.cur.key, Kind: "reach", Label: fmt.Sprintf("return%d", i+1), Props: nil,
			PC: []Term{Or(alts...)}, Goal: TTrue, ExpectSat: true, Site: m.site(r)})
	}
}
