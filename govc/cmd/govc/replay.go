package main

// Replay of solver counterexamples against the real compiled code (DESIGN §4):
// the model's inputs are turned into a Go test that is injected with
// `go test -overlay` (nothing is written into /repo), the real function is
// run, and its concrete outputs are fed back to the solver together with the
// inputs: if the failed clause is still violated for those concrete values the
// violation is confirmed.

import (
	"bytes"
	"context"
	"encoding/json"
	"fmt"
	"go/types"
	"math/big"
	"os"
	"os/exec"
	"path/filepath"
	"strings"
	"time"

	"golang.org/x/tools/go/ssa"
)

type replayIO struct {
	setup  []string // Go statements building arguments
	args   []string
	fixes  []string // SMT assertions fixing the inputs
	hasIn  bool
	prints []string
	unsup  string
}

func parseBVModel(s string) (*big.Int, bool) {
	s = strings.TrimSpace(s)
	if strings.HasPrefix(s, "#x") {
		v, ok := new(big.Int).SetString(s[2:], 16)
		return v, ok
	}
	if strings.HasPrefix(s, "#b") {
		v, ok := new(big.Int).SetString(s[2:], 2)
		return v, ok
	}
	if strings.HasPrefix(s, "(_ bv") {
		f := strings.Fields(strings.Trim(s, "()"))
		if len(f) >= 2 {
			v, ok := new(big.Int).SetString(strings.TrimPrefix(f[1], "bv"), 10)
			return v, ok
		}
	}
	return nil, false
}

// parseFPModel turns "(fp #b0 #b100.. #x...)" into the IEEE bit pattern.
func parseFPModel(s string, w int) (uint64, bool) {
	s = strings.TrimSpace(s)
	switch {
	case strings.HasPrefix(s, "(fp "):
		f := strings.Fields(strings.Trim(s, "()"))
		if len(f) != 4 {
			return 0, false
		}
		sg, ok1 := parseBVModel(f[1])
		ex, ok2 := parseBVModel(f[2])
		mt, ok3 := parseBVModel(f[3])
		if !ok1 || !ok2 || !ok3 {
			return 0, false
		}
		if w == 64 {
			return sg.Uint64()<<63 | ex.Uint64()<<52 | mt.Uint64(), true
		}
		return sg.Uint64()<<31 | ex.Uint64()<<23 | mt.Uint64(), true
	case strings.Contains(s, "NaN"):
		if w == 64 {
			return 0x7ff8000000000001, true
		}
		return 0x7fc00001, true
	case strings.Contains(s, "+oo"):
		if w == 64 {
			return 0x7ff0000000000000, true
		}
		return 0x7f800000, true
	case strings.Contains(s, "-oo"):
		if w == 64 {
			return 0xfff0000000000000, true
		}
		return 0xff800000, true
	case strings.Contains(s, "+zero"):
		return 0, true
	case strings.Contains(s, "-zero"):
		if w == 64 {
			return 1 << 63, true
		}
		return 1 << 31, true
	}
	return 0, false
}

func goIntType(t types.Type) string {
	return types.TypeString(t, func(*types.Package) string { return "" })
}

// replay returns the replay file and whether the violation was confirmed on the real code.
func (cc *checkCtx) replay(o *Obligation) (string, bool) {
	m := cc.s.m
	fn := m.findFunc(o.Fn)
	if fn == nil || o.Abstract || fn.Signature.Recv() != nil || o.Ctx == nil {
		why := "counterexample is over abstracted state (reflect / interface values): no concrete input can be read off the model"
		if !o.Abstract {
			why = "no replay harness for this function shape"
		}
		return cc.replayNoInput(o, why), false
	}
	model := o.Res.Model
	// prefer a small input stream: re-solve with the stream bounded (a model the harness can build)
	if _, hasIn := model["(blen ghost0.in)"]; hasIn {
		if n, ok := parseBVModel(model["(blen ghost0.in)"]); !ok || n.Cmp(big.NewInt(40)) > 0 {
			q := m.fullQuery(m.smtRef, o)
			if i := strings.LastIndex(q, "(check-sat)"); i >= 0 {
				q2 := q[:i] + "(assert (bvule (blen ghost0.in) #x0000000000000028))\n" + q[i:]
				if r := cc.s.smt.solve(q2, o.Name()+"#small"); r.Status == "sat" {
					model = r.Model
					m.queryOf[o] = q2
				}
			}
		}
	}
	rio := &replayIO{}
	// parameters
	for _, p := range fn.Params {
		cc.replayParam(o, rio, p, model)
		if rio.unsup != "" {
			return cc.replayNoInput(o, "model value not convertible: "+rio.unsup), false
		}
	}
	// result printing
	sig := fn.Signature
	var lhs []string
	for i := 0; i < sig.Results().Len(); i++ {
		lhs = append(lhs, fmt.Sprintf("r%d", i))
	}
	call := fmt.Sprintf("%s(%s)", fn.Name(), strings.Join(rio.args, ", "))
	var body strings.Builder
	for _, s := range rio.setup {
		body.WriteString("\t" + s + "\n")
	}
	if len(lhs) > 0 {
		fmt.Fprintf(&body, "\t%s := %s\n", strings.Join(lhs, ", "), call)
	} else {
		fmt.Fprintf(&body, "\t%s\n", call)
	}
	for i := 0; i < sig.Results().Len(); i++ {
		rt := sig.Results().At(i).Type()
		v := fmt.Sprintf("r%d", i)
		switch {
		case isErrorType(rt):
			fmt.Fprintf(&body, "\tif %s == nil { fmt.Println(\"GOVC-RESULT\", %d, \"err\", \"nil\") } else { fmt.Println(\"GOVC-RESULT\", %d, \"err\", \"nonnil\", %s == io.EOF, strconv.Quote(%s.Error())) }\n", v, i, i, v, v)
		case intWidth(rt) > 0:
			if isSigned(rt) {
				fmt.Fprintf(&body, "\tfmt.Println(\"GOVC-RESULT\", %d, \"int\", int64(%s))\n", i, v)
			} else {
				fmt.Fprintf(&body, "\tfmt.Println(\"GOVC-RESULT\", %d, \"uint\", uint64(%s))\n", i, v)
			}
		case m.sortOf(rt) == SBool:
			fmt.Fprintf(&body, "\tfmt.Println(\"GOVC-RESULT\", %d, \"bool\", %s)\n", i, v)
		case m.sortOf(rt) == SF64:
			fmt.Fprintf(&body, "\tfmt.Printf(\"GOVC-RESULT %d f64 %%#x\\n\", math.Float64bits(%s))\n", i, v)
		case m.sortOf(rt) == STime:
			fmt.Fprintf(&body, "\tfmt.Println(\"GOVC-RESULT\", %d, \"time\", %s.Unix(), %s.Nanosecond(), %s.IsZero())\n", i, v, v, v)
		default:
			if sl, ok := rt.Underlying().(*types.Slice); ok && m.elemSort(sl.Elem()) == SBV8 {
				fmt.Fprintf(&body, "\tfmt.Printf(\"GOVC-RESULT %d bytes %%d %%x\\n\", len(%s), %s)\n", i, v, v)
			} else {
				fmt.Fprintf(&body, "\tfmt.Printf(\"GOVC-RESULT %d other %%v\\n\", %s)\n", i, v)
			}
		}
	}
	if rio.hasIn {
		body.WriteString("\tfmt.Println(\"GOVC-POS\", rd.pos)\n")
	}
	src := fmt.Sprintf(`package hessian

// Replay of a govc counterexample.
//   property:   %s
//   obligation: %s
//   clause:     %s
// Run from /repo:  go test -overlay <ov.json> -vet=off -timeout 60s -run TestGovcReplay -v .

import (
	"fmt"
	"io"
	"math"
	"strconv"
	"testing"
	"time"
	"unicode/utf8"
)

var _ = math.Pi
var _ = io.EOF
var _ = strconv.Itoa
var _ = time.Now
var _ = utf8.RuneError

// govcReader: byte-counting reader without read-ahead (the reader model of the contracts).
type govcReader struct {
	data []byte
	pos  int
}

func (r *govcReader) Read(p []byte) (int, error) {
	if r.pos >= len(r.data) {
		return 0, io.EOF
	}
	n := copy(p, r.data[r.pos:])
	r.pos += n
	return n, nil
}

func (r *govcReader) ReadRune() (rune, int, error) {
	if r.pos >= len(r.data) {
		return 0, 0, io.EOF
	}
	c, w := utf8.DecodeRune(r.data[r.pos:])
	r.pos += w
	return c, w, nil
}

func TestGovcReplay(t *testing.T) {
	defer func() {
		if r := recover(); r != nil {
			fmt.Println("GOVC-PANIC", r)
		}
	}()
%s}
`, cc.prop, o.Name(), o.Src, body.String())
	base := filepath.Join(cc.outDir, "replays", sanitize(cc.prop+"-"+o.Name()))
	goFile := base + "_test.go"
	os.WriteFile(goFile, []byte(src), 0o644)
	out, err := runOverlayTest(cc.s.repo, goFile, "TestGovcReplay")
	report := fmt.Sprintf("property: %s\nfailed obligation: %s\nclause: %s\nsolver: %s\nmodel: %v\n--- real code output ---\n%s\n", cc.prop, o.Name(), o.Src, o.Res.Backend, model, out)
	if err != nil && !strings.Contains(out, "GOVC-") {
		os.WriteFile(base+".txt", []byte(report+"\nreplay run failed: "+err.Error()+"\n"), 0o644)
		return goFile, false
	}
	// confirm
	confirmed, detail := cc.confirm(o, rio, out)
	report += "--- confirmation ---\n" + detail + "\n"
	os.WriteFile(base+".txt", []byte(report), 0o644)
	return goFile, confirmed
}

func (cc *checkCtx) replayParam(o *Obligation, rio *replayIO, p *ssa.Parameter, model map[string]string) {
	m := cc.s.m
	pv := o.Ctx.params[p.Name()]
	t := p.Type()
	name := "a_" + p.Name()
	switch {
	case intWidth(t) > 0:
		term := pv.(Term)
		v, ok := parseBVModel(model[term.S])
		if !ok {
			v = big.NewInt(0)
			rio.fixes = append(rio.fixes, "")
		}
		w := intWidth(t)
		if isSigned(t) {
			v = signedW(v, w)
		}
		rio.setup = append(rio.setup, fmt.Sprintf("%s := %s(%s)", name, goIntType(t), v.String()))
		rio.args = append(rio.args, name)
		rio.fixes = append(rio.fixes, fmt.Sprintf("(assert (= %s %s))", term.S, BVLit(v, w).S))
	case m.sortOf(t) == SBool:
		term := pv.(Term)
		b := model[term.S] == "true"
		rio.setup = append(rio.setup, fmt.Sprintf("%s := %v", name, b))
		rio.args = append(rio.args, name)
		rio.fixes = append(rio.fixes, fmt.Sprintf("(assert (= %s %v))", term.S, b))
	case m.sortOf(t) == SF64 || m.sortOf(t) == SF32:
		term := pv.(Term)
		w := m.sortOf(t).Width()
		bits, ok := parseFPModel(model[term.S], w)
		if !ok {
			rio.unsup = "float model " + model[term.S]
			return
		}
		if w == 64 {
			rio.setup = append(rio.setup, fmt.Sprintf("%s := math.Float64frombits(%#x)", name, bits))
		} else {
			rio.setup = append(rio.setup, fmt.Sprintf("%s := math.Float32frombits(%#x)", name, bits))
		}
		rio.args = append(rio.args, name)
		rio.fixes = append(rio.fixes, fmt.Sprintf("(assert (= %s %s))", term.S, FPLitBits(bits, w).S))
	case m.sortOf(t) == STime:
		term := pv.(Term)
		sec, ok1 := parseBVModel(model["(t.sec "+term.S+")"])
		ns, ok2 := parseBVModel(model["(t.nsec "+term.S+")"])
		if !ok1 || !ok2 {
			rio.unsup = "time model"
			return
		}
		rio.setup = append(rio.setup, fmt.Sprintf("%s := time.Unix(%s, %s).UTC()", name, signedW(sec, 64), signedW(ns, 64)))
		rio.args = append(rio.args, name)
		rio.fixes = append(rio.fixes, fmt.Sprintf("(assert (= %s (mktime %s %s)))", term.S, BVLit(sec, 64).S, BVLit(ns, 64).S))
	case m.sortOf(t) == SObj && strings.Contains(typeString(t), "Reader"):
		// the input stream ghost
		n, ok := parseBVModel(model["(blen ghost0.in)"])
		pos, ok2 := parseBVModel(model["ghost0.pos"])
		if !ok || !ok2 || n.Cmp(big.NewInt(64)) > 0 {
			// cap: only short inputs are replayed
			if ok && ok2 && n.Cmp(big.NewInt(1<<16)) <= 0 {
				// long input: bytes beyond the sampled prefix are zero-filled
			} else {
				rio.unsup = "input stream model (length " + fmt.Sprint(n) + ")"
				return
			}
		}
		var bs []string
		fix := []string{fmt.Sprintf("(assert (= (blen ghost0.in) %s))", BVLit(n, 64).S), fmt.Sprintf("(assert (= ghost0.pos %s))", BVLit(pos, 64).S)}
		for i := int64(0); i < n.Int64(); i++ {
			b := big.NewInt(0)
			if v, ok := parseBVModel(model[fmt.Sprintf("(select (barr ghost0.in) %s)", BVLitI(i, 64).S)]); ok {
				b = v
			}
			bs = append(bs, fmt.Sprintf("%#x", b.Uint64()))
			fix = append(fix, fmt.Sprintf("(assert (= (select (barr ghost0.in) %s) %s))", BVLitI(i, 64).S, BVLit(b, 8).S))
		}
		rio.setup = append(rio.setup, fmt.Sprintf("rd := &govcReader{data: []byte{%s}, pos: %d}", strings.Join(bs, ", "), pos.Int64()))
		rio.args = append(rio.args, "rd")
		rio.fixes = append(rio.fixes, fix...)
		rio.hasIn = true
	default:
		if sl, ok := t.Underlying().(*types.Slice); ok && m.elemSort(sl.Elem()) == SBV8 {
			sv := pv.(*SliceV)
			n, ok := parseBVModel(model[sv.Len.S])
			if !ok || n.Cmp(big.NewInt(1<<20)) > 0 {
				rio.unsup = "byte slice length"
				return
			}
			arr := m.loadArr(o.Ctx.old, sv.Obj)
			var bs []string
			fix := []string{fmt.Sprintf("(assert (= %s %s))", sv.Len.S, BVLit(n, 64).S)}
			for i := int64(0); i < n.Int64() && i < 12; i++ {
				b := big.NewInt(0)
				if v, ok := parseBVModel(model[Select(arr, BVLitI(i, 64)).S]); ok {
					b = v
				}
				bs = append(bs, fmt.Sprintf("%#x", b.Uint64()))
				fix = append(fix, fmt.Sprintf("(assert (= %s %s))", Select(arr, BVLitI(i, 64)).S, BVLit(b, 8).S))
			}
			rio.setup = append(rio.setup, fmt.Sprintf("%s := make([]byte, %d); copy(%s, []byte{%s})", name, n.Int64(), name, strings.Join(bs, ", ")))
			for i := int64(12); i < n.Int64(); i++ {
				fix = append(fix, fmt.Sprintf("(assert (= %s #x00))", Select(arr, BVLitI(i, 64)).S))
				if i > 4200 {
					break
				}
			}
			rio.args = append(rio.args, name)
			rio.fixes = append(rio.fixes, fix...)
			return
		}
		rio.unsup = "parameter " + p.Name() + " of type " + typeString(t)
	}
}

func runOverlayTest(repo, goFile, test string) (string, error) {
	ov := map[string]map[string]string{"Replace": {filepath.Join(repo, "zz_govc_replay_test.go"): goFile}}
	b, _ := json.Marshal(ov)
	ovFile := goFile + ".overlay.json"
	os.WriteFile(ovFile, b, 0o644)
	defer os.Remove(ovFile)
	ctx, cancel := context.WithTimeout(context.Background(), 120*time.Second)
	defer cancel()
	cmd := exec.CommandContext(ctx, "go", "test", "-overlay", ovFile, "-vet=off", "-count=1", "-timeout", "60s", "-run", "^"+test+"$", "-v", ".")
	cmd.Dir = repo
	cmd.Env = append(os.Environ(), "GOFLAGS=-mod=mod", "GOPROXY=off", "GOSUMDB=off", "GOTOOLCHAIN=local")
	var buf bytes.Buffer
	cmd.Stdout = &buf
	cmd.Stderr = &buf
	err := cmd.Run()
	return buf.String(), err
}

// confirm: assert inputs = model, symbolic results = concrete outputs, and the negated clause.
func (cc *checkCtx) confirm(o *Obligation, rio *replayIO, out string) (bool, string) {
	m := cc.s.m
	if strings.Contains(out, "GOVC-PANIC") {
		if strings.HasPrefix(o.Kind, "safe-") {
			return true, "the real code panicked: " + grepLine(out, "GOVC-PANIC")
		}
		return true, "the real code panicked where the contract promises a result: " + grepLine(out, "GOVC-PANIC")
	}
	if strings.HasPrefix(o.Kind, "safe-") {
		return false, "safety obligation failed in the model but the real code did not panic on the model's input"
	}
	fixes := cc.resultFixes(o, rio, out)
	q := m.fullQuery(m.smtRef, o)
	i := strings.LastIndex(q, "(check-sat)")
	if i < 0 {
		return false, "no query"
	}
	q2 := q[:i] + strings.Join(fixes, "\n") + "\n(check-sat)\n"
	res := cc.s.smt.solve(q2, o.Name()+"#confirm")
	switch res.Status {
	case "sat":
		return true, "clause evaluated on the real code's concrete inputs and outputs: violated (" + res.Backend + ")"
	case "unsat":
		return false, "ENGINE-MISMATCH: the real code's outputs on the model's input do not reproduce the symbolic path (or the clause holds concretely)"
	}
	return false, "confirmation query undecided: " + res.Status
}

func grepLine(out, key string) string {
	for _, l := range strings.Split(out, "\n") {
		if strings.Contains(l, key) {
			return strings.TrimSpace(l)
		}
	}
	return ""
}

// resultFixes: SMT assertions fixing the inputs to the model and the symbolic results to the concrete outputs.
func (cc *checkCtx) resultFixes(o *Obligation, rio *replayIO, out string) []string {
	m := cc.s.m
	var fixes []string
	fixes = append(fixes, rio.fixes...)
	for _, line := range strings.Split(out, "\n") {
		f := strings.Fields(strings.TrimSpace(line))
		if len(f) >= 2 && f[0] == "GOVC-POS" && o.PosTerm != nil {
			v, _ := new(big.Int).SetString(f[1], 10)
			fixes = append(fixes, fmt.Sprintf("(assert (= %s %s))", o.PosTerm.S, BVLit(v, 64).S))
		}
		if len(f) < 4 || f[0] != "GOVC-RESULT" {
			continue
		}
		var idx int
		fmt.Sscanf(f[1], "%d", &idx)
		if idx >= len(o.Results) {
			continue
		}
		rv := o.Results[idx]
		switch f[2] {
		case "int", "uint":
			v, _ := new(big.Int).SetString(f[3], 10)
			if t, ok := rv.(Term); ok && t.Sort.IsBV() {
				fixes = append(fixes, fmt.Sprintf("(assert (= %s %s))", t.S, BVLit(v, t.Sort.Width()).S))
			}
		case "bool":
			if t, ok := rv.(Term); ok {
				fixes = append(fixes, fmt.Sprintf("(assert (= %s %s))", t.S, f[3]))
			}
		case "err":
			if t, ok := rv.(Term); ok {
				if f[3] == "nil" {
					fixes = append(fixes, fmt.Sprintf("(assert (= %s err.nil))", t.S))
				} else {
					fixes = append(fixes, fmt.Sprintf("(assert (not (= %s err.nil)))", t.S))
				}
			}
		case "f64":
			var bits uint64
			fmt.Sscanf(f[3], "%v", &bits)
			if t, ok := rv.(Term); ok {
				if bits&0x7ff0000000000000 == 0x7ff0000000000000 && bits&0xfffffffffffff != 0 {
					fixes = append(fixes, fmt.Sprintf("(assert (fp.isNaN %s))", t.S))
				} else {
					fixes = append(fixes, fmt.Sprintf("(assert (= %s %s))", t.S, FPLitBits(bits, 64).S))
				}
			}
		case "time":
			if t, ok := rv.(Term); ok && len(f) >= 5 {
				s, _ := new(big.Int).SetString(f[3], 10)
				n, _ := new(big.Int).SetString(f[4], 10)
				fixes = append(fixes, fmt.Sprintf("(assert (= %s (mktime %s %s)))", t.S, BVLit(s, 64).S, BVLit(n, 64).S))
			}
		case "bytes":
			if sl, ok := rv.(*SliceV); ok && len(f) >= 4 {
				n, _ := new(big.Int).SetString(f[3], 10)
				fixes = append(fixes, fmt.Sprintf("(assert (= %s %s))", sl.Len.S, BVLit(n, 64).S))
				hexs := ""
				if len(f) >= 5 {
					hexs = f[4]
				}
				arr := m.loadArr(o.RetState, sl.Obj)
				for i := 0; i+1 < len(hexs) && i/2 < 64; i += 2 {
					b, _ := new(big.Int).SetString(hexs[i:i+2], 16)
					fixes = append(fixes, fmt.Sprintf("(assert (= %s %s))", Select(arr, BVAdd(sl.Off, BVLitI(int64(i/2), 64))).S, BVLit(b, 8).S))
				}
			}
		}
	}
	return fixes
}
