package main

// Term layer: typed SMT-LIB terms built as strings, with light constant folding.
// Integers are bit-vectors of their Go width; floats are SMT FloatingPoint.

import (
	"fmt"
	"math/big"
	"strings"
)

type Sort string

const (
	SBool  Sort = "Bool"
	SBV8   Sort = "(_ BitVec 8)"
	SBV16  Sort = "(_ BitVec 16)"
	SBV32  Sort = "(_ BitVec 32)"
	SBV64  Sort = "(_ BitVec 64)"
	SF32   Sort = "(_ FloatingPoint 8 24)"
	SF64   Sort = "(_ FloatingPoint 11 53)"
	SErr   Sort = "Err"
	SStr   Sort = "Str"
	SIface Sort = "Iface"
	SRV    Sort = "RV"
	SRT    Sort = "RT"
	STime  Sort = "Time"
	SBytes Sort = "Bytes"
	SRunes Sort = "Runes"
	SStrm  Sort = "Stream"
	STok   Sort = "Tok"
	SObj   Sort = "Opaque"
	SArr8  Sort = "(Array (_ BitVec 64) (_ BitVec 8))"
	SArr32 Sort = "(Array (_ BitVec 64) (_ BitVec 32))"
)

func BVSort(w int) Sort { return Sort(fmt.Sprintf("(_ BitVec %d)", w)) }

func (s Sort) IsBV() bool { return strings.HasPrefix(string(s), "(_ BitVec ") }
func (s Sort) IsFP() bool { return strings.HasPrefix(string(s), "(_ FloatingPoint ") }
func (s Sort) Width() int {
	var w int
	if s.IsBV() {
		fmt.Sscanf(string(s), "(_ BitVec %d)", &w)
	} else if s == SF32 {
		w = 32
	} else if s == SF64 {
		w = 64
	}
	return w
}
func ArraySort(idx, el Sort) Sort { return Sort(fmt.Sprintf("(Array %s %s)", idx, el)) }
func (s Sort) IsArray() bool      { return strings.HasPrefix(string(s), "(Array ") }

// ArrayElem returns the element sort of an array sort whose index is BV64.
func (s Sort) ArrayElem() Sort {
	if !strings.HasPrefix(string(s), "(Array ") {
		return ""
	}
	// (Array <index> <elem>): skip the index sort (balanced parentheses)
	body := string(s)[len("(Array ") : len(s)-1]
	depth := 0
	for i := 0; i < len(body); i++ {
		switch body[i] {
		case '(':
			depth++
		case ')':
			depth--
		case ' ':
			if depth == 0 {
				return Sort(body[i+1:])
			}
		}
	}
	return ""
}

type Term struct {
	S    string
	Sort Sort
	// constant value for literals (BV: unsigned value; Bool: 0/1); nil otherwise
	C *big.Int
}

func (t Term) String() string { return t.S }
func (t Term) IsConst() bool  { return t.C != nil }

var (
	TTrue  = Term{"true", SBool, big.NewInt(1)}
	TFalse = Term{"false", SBool, big.NewInt(0)}
)

func mkBool(b bool) Term {
	if b {
		return TTrue
	}
	return TFalse
}

func maskW(v *big.Int, w int) *big.Int {
	m := new(big.Int).Lsh(big.NewInt(1), uint(w))
	r := new(big.Int).Mod(v, m)
	if r.Sign() < 0 {
		r.Add(r, m)
	}
	return r
}

func signedW(v *big.Int, w int) *big.Int {
	half := new(big.Int).Lsh(big.NewInt(1), uint(w-1))
	if v.Cmp(half) >= 0 {
		return new(big.Int).Sub(v, new(big.Int).Lsh(big.NewInt(1), uint(w)))
	}
	return new(big.Int).Set(v)
}

// BV literal of width w from (possibly negative) integer v.
func BVLit(v *big.Int, w int) Term {
	u := maskW(v, w)
	var s string
	if w%4 == 0 {
		s = fmt.Sprintf("#x%0*s", w/4, u.Text(16))
	} else {
		s = fmt.Sprintf("#b%0*s", w, u.Text(2))
	}
	return Term{s, BVSort(w), u}
}
func BVLitI(v int64, w int) Term { return BVLit(big.NewInt(v), w) }

func app(sort Sort, op string, args ...Term) Term {
	var b strings.Builder
	b.WriteByte('(')
	b.WriteString(op)
	for _, a := range args {
		b.WriteByte(' ')
		b.WriteString(a.S)
	}
	b.WriteByte(')')
	return Term{S: b.String(), Sort: sort}
}

func Sym(name string, s Sort) Term { return Term{S: name, Sort: s} }

// ---- boolean ----
func Not(a Term) Term {
	if a.IsConst() {
		return mkBool(a.C.Sign() == 0)
	}
	if strings.HasPrefix(a.S, "(not ") {
		return Term{S: a.S[5 : len(a.S)-1], Sort: SBool}
	}
	return app(SBool, "not", a)
}
func And(as ...Term) Term {
	var xs []Term
	for _, a := range as {
		if a.IsConst() {
			if a.C.Sign() == 0 {
				return TFalse
			}
			continue
		}
		xs = append(xs, a)
	}
	if len(xs) == 0 {
		return TTrue
	}
	if len(xs) == 1 {
		return xs[0]
	}
	return app(SBool, "and", xs...)
}
func Or(as ...Term) Term {
	var xs []Term
	for _, a := range as {
		if a.IsConst() {
			if a.C.Sign() != 0 {
				return TTrue
			}
			continue
		}
		xs = append(xs, a)
	}
	if len(xs) == 0 {
		return TFalse
	}
	if len(xs) == 1 {
		return xs[0]
	}
	return app(SBool, "or", xs...)
}
func Implies(a, b Term) Term {
	if a.IsConst() {
		if a.C.Sign() == 0 {
			return TTrue
		}
		return b
	}
	if b.IsConst() && b.C.Sign() != 0 {
		return TTrue
	}
	return app(SBool, "=>", a, b)
}
func Ite(c, a, b Term) Term {
	if c.IsConst() {
		if c.C.Sign() != 0 {
			return a
		}
		return b
	}
	if a.S == b.S {
		return a
	}
	return app(a.Sort, "ite", c, a, b)
}
func Eq(a, b Term) Term {
	if a.Sort != b.Sort {
		panic(fmt.Sprintf("Eq sort mismatch: %s:%s vs %s:%s", a.S, a.Sort, b.S, b.Sort))
	}
	if a.IsConst() && b.IsConst() {
		return mkBool(a.C.Cmp(b.C) == 0)
	}
	if a.S == b.S && !a.Sort.IsFP() {
		return TTrue
	}
	return app(SBool, "=", a, b)
}

// ---- bit-vectors ----
func bvBin(op string, a, b Term, f func(x, y *big.Int, w int) *big.Int) Term {
	if a.Sort != b.Sort {
		panic(fmt.Sprintf("%s sort mismatch: %s:%s vs %s:%s", op, a.S, a.Sort, b.S, b.Sort))
	}
	if a.IsConst() && b.IsConst() && f != nil {
		w := a.Sort.Width()
		if r := f(a.C, b.C, w); r != nil {
			return BVLit(r, w)
		}
	}
	return app(a.Sort, op, a, b)
}
func BVAdd(a, b Term) Term {
	if b.IsConst() && b.C.Sign() == 0 {
		return a
	}
	if a.IsConst() && a.C.Sign() == 0 {
		return b
	}
	return bvBin("bvadd", a, b, func(x, y *big.Int, w int) *big.Int { return new(big.Int).Add(x, y) })
}
func BVSub(a, b Term) Term {
	if b.IsConst() && b.C.Sign() == 0 {
		return a
	}
	return bvBin("bvsub", a, b, func(x, y *big.Int, w int) *big.Int { return new(big.Int).Sub(x, y) })
}
func BVMul(a, b Term) Term {
	return bvBin("bvmul", a, b, func(x, y *big.Int, w int) *big.Int { return new(big.Int).Mul(x, y) })
}
func BVAnd(a, b Term) Term {
	return bvBin("bvand", a, b, func(x, y *big.Int, w int) *big.Int { return new(big.Int).And(x, y) })
}
func BVOr(a, b Term) Term {
	return bvBin("bvor", a, b, func(x, y *big.Int, w int) *big.Int { return new(big.Int).Or(x, y) })
}
func BVXor(a, b Term) Term {
	return bvBin("bvxor", a, b, func(x, y *big.Int, w int) *big.Int { return new(big.Int).Xor(x, y) })
}
func BVNot(a Term) Term {
	if a.IsConst() {
		w := a.Sort.Width()
		return BVLit(new(big.Int).Not(a.C), w)
	}
	return app(a.Sort, "bvnot", a)
}
func BVNeg(a Term) Term {
	if a.IsConst() {
		return BVLit(new(big.Int).Neg(a.C), a.Sort.Width())
	}
	return app(a.Sort, "bvneg", a)
}

// Go shift: the count b is unsigned (already converted to a's width by caller,
// saturating is the SMT semantics for counts >= width, which matches Go).
func BVShl(a, b Term) Term {
	return bvBin("bvshl", a, b, func(x, y *big.Int, w int) *big.Int {
		if y.Cmp(big.NewInt(int64(w))) >= 0 {
			return big.NewInt(0)
		}
		return new(big.Int).Lsh(x, uint(y.Int64()))
	})
}
func BVLshr(a, b Term) Term {
	return bvBin("bvlshr", a, b, func(x, y *big.Int, w int) *big.Int {
		if y.Cmp(big.NewInt(int64(w))) >= 0 {
			return big.NewInt(0)
		}
		return new(big.Int).Rsh(x, uint(y.Int64()))
	})
}
func BVAshr(a, b Term) Term {
	return bvBin("bvashr", a, b, func(x, y *big.Int, w int) *big.Int {
		s := signedW(x, w)
		n := uint(w)
		if y.Cmp(big.NewInt(int64(w))) < 0 {
			n = uint(y.Int64())
		}
		return new(big.Int).Rsh(s, n) // arithmetic on big.Int (floor)
	})
}

// Division/remainder: Go panics on zero divisor (separate safety obligation);
// signed division truncates toward zero, as bvsdiv/bvsrem do.
func BVUDiv(a, b Term) Term { return bvBin("bvudiv", a, b, nil) }
func BVURem(a, b Term) Term { return bvBin("bvurem", a, b, nil) }
func BVSDiv(a, b Term) Term { return bvBin("bvsdiv", a, b, nil) }
func BVSRem(a, b Term) Term { return bvBin("bvsrem", a, b, nil) }

func bvCmp(op string, a, b Term, signed bool, f func(c int) bool) Term {
	if a.Sort != b.Sort {
		panic(fmt.Sprintf("%s sort mismatch: %s:%s vs %s:%s", op, a.S, a.Sort, b.S, b.Sort))
	}
	if a.IsConst() && b.IsConst() {
		x, y := a.C, b.C
		if signed {
			w := a.Sort.Width()
			x, y = signedW(x, w), signedW(y, w)
		}
		return mkBool(f(x.Cmp(y)))
	}
	return app(SBool, op, a, b)
}
func BVUlt(a, b Term) Term { return bvCmp("bvult", a, b, false, func(c int) bool { return c < 0 }) }
func BVUle(a, b Term) Term { return bvCmp("bvule", a, b, false, func(c int) bool { return c <= 0 }) }
func BVUgt(a, b Term) Term { return bvCmp("bvugt", a, b, false, func(c int) bool { return c > 0 }) }
func BVUge(a, b Term) Term { return bvCmp("bvuge", a, b, false, func(c int) bool { return c >= 0 }) }
func BVSlt(a, b Term) Term { return bvCmp("bvslt", a, b, true, func(c int) bool { return c < 0 }) }
func BVSle(a, b Term) Term { return bvCmp("bvsle", a, b, true, func(c int) bool { return c <= 0 }) }
func BVSgt(a, b Term) Term { return bvCmp("bvsgt", a, b, true, func(c int) bool { return c > 0 }) }
func BVSge(a, b Term) Term { return bvCmp("bvsge", a, b, true, func(c int) bool { return c >= 0 }) }

func Extract(hi, lo int, a Term) Term {
	w := hi - lo + 1
	if w == a.Sort.Width() {
		return a
	}
	if a.IsConst() {
		return BVLit(new(big.Int).Rsh(a.C, uint(lo)), w)
	}
	return Term{S: fmt.Sprintf("((_ extract %d %d) %s)", hi, lo, a.S), Sort: BVSort(w)}
}
func SignExt(a Term, to int) Term {
	w := a.Sort.Width()
	if to == w {
		return a
	}
	if a.IsConst() {
		return BVLit(signedW(a.C, w), to)
	}
	return Term{S: fmt.Sprintf("((_ sign_extend %d) %s)", to-w, a.S), Sort: BVSort(to)}
}
func ZeroExt(a Term, to int) Term {
	w := a.Sort.Width()
	if to == w {
		return a
	}
	if a.IsConst() {
		return BVLit(a.C, to)
	}
	return Term{S: fmt.Sprintf("((_ zero_extend %d) %s)", to-w, a.S), Sort: BVSort(to)}
}

// Go integer conversion between widths.
func BVConv(a Term, fromSigned bool, to int) Term {
	w := a.Sort.Width()
	switch {
	case to == w:
		return a
	case to < w:
		return Extract(to-1, 0, a)
	case fromSigned:
		return SignExt(a, to)
	default:
		return ZeroExt(a, to)
	}
}
func Concat(a, b Term) Term {
	w := a.Sort.Width() + b.Sort.Width()
	if a.IsConst() && b.IsConst() {
		v := new(big.Int).Lsh(a.C, uint(b.Sort.Width()))
		v.Or(v, b.C)
		return BVLit(v, w)
	}
	return Term{S: fmt.Sprintf("(concat %s %s)", a.S, b.S), Sort: BVSort(w)}
}

// ---- arrays ----
func Select(arr, idx Term) Term {
	el := arr.Sort.ArrayElem()
	if el == "" {
		panic("Select on non-array " + string(arr.Sort) + " " + arr.S)
	}
	// read-over-write simplification for literal indices
	a := arr
	for idx.IsConst() {
		base, i, v, ok := splitStore(a)
		if !ok || !i.IsConst() {
			break
		}
		if i.C.Cmp(idx.C) == 0 {
			return v
		}
		a = base
	}
	return app(el, "select", a, idx)
}

type storeRec struct{ base, idx, val Term }

var storeTab = map[string]storeRec{}

func Store(arr, idx, val Term) Term {
	t := app(arr.Sort, "store", arr, idx, val)
	storeTab[t.S] = storeRec{arr, idx, val}
	return t
}
func splitStore(t Term) (base, idx, val Term, ok bool) {
	r, ok := storeTab[t.S]
	return r.base, r.idx, r.val, ok
}

// ---- floating point ----
func FPLitBits(bits uint64, w int) Term {
	if w == 32 {
		b := uint32(bits)
		return Term{S: fmt.Sprintf("(fp #b%01b #b%08b #b%023b)", b>>31, (b>>23)&0xff, b&0x7fffff), Sort: SF32}
	}
	return Term{S: fmt.Sprintf("(fp #b%01b #b%011b #b%052b)", bits>>63, (bits>>52)&0x7ff, bits&0xfffffffffffff), Sort: SF64}
}
func fpParams(s Sort) (int, int) {
	if s == SF32 {
		return 8, 24
	}
	return 11, 53
}
func FPOfBits(bv Term) Term {
	if bv.Sort.Width() == 32 {
		return Term{S: fmt.Sprintf("((_ to_fp 8 24) %s)", bv.S), Sort: SF32}
	}
	return Term{S: fmt.Sprintf("((_ to_fp 11 53) %s)", bv.S), Sort: SF64}
}
func FPConv(a Term, to Sort) Term {
	if a.Sort == to {
		return a
	}
	e, m := fpParams(to)
	return Term{S: fmt.Sprintf("((_ to_fp %d %d) RNE %s)", e, m, a.S), Sort: to}
}
func FPFromSInt(a Term, to Sort) Term {
	e, m := fpParams(to)
	return Term{S: fmt.Sprintf("((_ to_fp %d %d) RNE %s)", e, m, a.S), Sort: to}
}
func FPFromUInt(a Term, to Sort) Term {
	e, m := fpParams(to)
	return Term{S: fmt.Sprintf("((_ to_fp_unsigned %d %d) RNE %s)", e, m, a.S), Sort: to}
}
