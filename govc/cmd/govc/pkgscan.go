package main

// Package-level frame obligations (C12 F1-F2, C17 P4): structural facts about
// every function body of the package, checked on the SSA.

import (
	"fmt"
	"go/constant"
	"go/types"
	"sort"
	"strings"

	"golang.org/x/tools/go/ssa"
)

func (m *Machine) pkgObl(kind, label string, props []string, ok bool, site, src string) *Obligation {
	st := "unsat"
	if !ok {
		st = "sat"
	}
	return &Obligation{Fn: "package", Kind: kind, Label: label, Props: props, Goal: mkBool(ok), Site: site, Src: src,
		Res: &SolveResult{Status: st, Backend: "ssa-scan"}}
}

// globalRoot follows address computations back to a package-level variable.
func globalRoot(v ssa.Value, depth int) *ssa.Global {
	if depth > 20 {
		return nil
	}
	switch x := v.(type) {
	case *ssa.Global:
		return x
	case *ssa.IndexAddr:
		return globalRoot(x.X, depth+1)
	case *ssa.FieldAddr:
		return globalRoot(x.X, depth+1)
	case *ssa.Slice:
		return globalRoot(x.X, depth+1)
	case *ssa.UnOp: // load of a global holding a reference (slice, map, pointer)
		return globalRoot(x.X, depth+1)
	case *ssa.ChangeType:
		return globalRoot(x.X, depth+1)
	case *ssa.Convert:
		return globalRoot(x.X, depth+1)
	case *ssa.Phi:
		for _, e := range x.Edges {
			if g := globalRoot(e, depth+1); g != nil {
				return g
			}
		}
	}
	return nil
}

func (m *Machine) packageScan() *FuncReport {
	rep := &FuncReport{Key: "package"}
	pc := m.contracts.Pkg
	if pc == nil {
		rep.Unsup = "no package contract"
		return rep
	}
	var fns []*ssa.Function
	for fn := range ssaAllFunctions(m.prog, m.pkg) {
		fns = append(fns, fn)
	}
	sort.Slice(fns, func(i, j int) bool { return funcKey(fns[i]) < funcKey(fns[j]) })
	// C14: the documented decode entry points turn panics of the reflective assembly into errors
	for _, key := range pc.RecoverPoints {
		fn := m.findFunc(key)
		ok := false
		why := "no such function"
		if fn != nil {
			ok, why = recoversPanics(fn)
		}
		rep.Obligs = append(rep.Obligs, m.pkgObl("recovers", key, []string{"C14"}, ok, why, "a deferred closure calls recover() and assigns the error result"))
	}
	// C14: no panic of the reflective assembly escapes a documented decode entry point.  A function
	// may let one escape when it is not itself a recover point and calls into package reflect (every
	// reflect operation has panicking preconditions) or formats/asserts nothing but calls such a
	// function; computed as a least fixpoint over the static call graph of the package.
	if len(pc.DecodeEntries) > 0 {
		escapes := map[*ssa.Function]string{}
		calleesOf := func(fn *ssa.Function) (reflectCall string, callees []*ssa.Function) {
			var walk func(f *ssa.Function)
			seen := map[*ssa.Function]bool{}
			walk = func(f *ssa.Function) {
				if seen[f] {
					return
				}
				seen[f] = true
				for _, b := range f.Blocks {
					for _, ins := range b.Instrs {
						if mc, ok := ins.(*ssa.MakeClosure); ok {
							// closures created here run on behalf of this function (deferred recover closures are harmless)
							if cf, ok := mc.Fn.(*ssa.Function); ok {
								if rec, _ := closureRecovers(cf); !rec {
									walk(cf)
								}
							}
						}
						ci, ok := ins.(ssa.CallInstruction)
						if !ok {
							continue
						}
						if callee := ci.Common().StaticCallee(); callee != nil {
							if callee.Pkg == m.pkg {
								callees = append(callees, callee)
							} else if callee.Pkg != nil && callee.Pkg.Pkg.Path() == "reflect" && reflectCall == "" {
								reflectCall = callee.Name() + "@" + m.site(ins)
							}
						}
					}
				}
			}
			walk(fn)
			return
		}
		type info struct {
			refl    string
			callees []*ssa.Function
			guarded bool
		}
		infos := map[*ssa.Function]*info{}
		for _, fn := range fns {
			r, cs := calleesOf(fn)
			g, _ := recoversPanics(fn)
			infos[fn] = &info{refl: r, callees: cs, guarded: g}
		}
		for changed := true; changed; {
			changed = false
			for _, fn := range fns {
				in := infos[fn]
				if in.guarded || escapes[fn] != "" {
					continue
				}
				if in.refl != "" {
					escapes[fn] = "calls reflect." + in.refl
					changed = true
					continue
				}
				for _, c := range in.callees {
					if escapes[c] != "" {
						escapes[fn] = "calls " + funcKey(c) + " (" + escapes[c] + ")"
						changed = true
						break
					}
				}
			}
		}
		// C14: no error message of the decode path formats a decoded value (a decoded list can contain
		// itself, and fmt recurses on it until the stack is exhausted - a fatal error no recover catches).
		// Arguments handed to fmt / the logger / newCodecError must have a static type that cannot hold a
		// decoded container: basic types, strings, errors, reflect.Type, reflect.Kind; a recovered panic
		// value is allowed (panics of this package carry strings and errors).
		reach := map[*ssa.Function]bool{}
		var mark func(f *ssa.Function)
		mark = func(f *ssa.Function) {
			if f == nil || reach[f] {
				return
			}
			reach[f] = true
			if in := infos[f]; in != nil {
				for _, c := range in.callees {
					mark(c)
				}
			}
			for _, b := range f.Blocks {
				for _, ins := range b.Instrs {
					if mc, ok := ins.(*ssa.MakeClosure); ok {
						if cf, ok := mc.Fn.(*ssa.Function); ok {
							mark(cf)
						}
					}
				}
			}
		}
		for _, key := range pc.DecodeEntries {
			mark(m.findFunc(key))
		}
		safeArg := func(t types.Type) bool {
			if isErrorType(t) {
				return true
			}
			ts := t.String()
			if ts == "reflect.Type" || ts == "reflect.Kind" || ts == "time.Time" || ts == "time.Duration" {
				return true
			}
			switch u := t.Underlying().(type) {
			case *types.Basic:
				return u.Kind() != types.UnsafePointer
			}
			return false
		}
		isFormatter := func(c *ssa.CallCommon) bool {
			callee := c.StaticCallee()
			if callee != nil {
				if callee.Pkg == m.pkg && callee.Name() == "newCodecError" {
					return true
				}
				if callee.Pkg != nil && callee.Pkg.Pkg.Path() == "fmt" {
					return true
				}
				return false
			}
			if c.IsInvoke() && strings.Contains(c.Value.Type().String(), "logger") {
				return true
			}
			return false
		}
		var reachFns []*ssa.Function
		for f := range reach {
			reachFns = append(reachFns, f)
		}
		sort.Slice(reachFns, func(i, j int) bool { return funcKey(reachFns[i]) < funcKey(reachFns[j]) })
		for _, fn := range reachFns {
			var bad []string
			for _, b := range fn.Blocks {
				for _, ins := range b.Instrs {
					ci, ok := ins.(ssa.CallInstruction)
					if !ok || !isFormatter(ci.Common()) {
						continue
					}
					// the arguments in order: fixed ones, then the elements stored into the variadic array
					var vals []ssa.Value
					for _, a := range ci.Common().Args {
						if sl, ok := a.(*ssa.Slice); ok {
							if al, ok := sl.X.(*ssa.Alloc); ok {
								elems := map[int64]ssa.Value{}
								var maxIdx int64 = -1
								for _, ref := range *al.Referrers() {
									if ia, ok := ref.(*ssa.IndexAddr); ok {
										idx := int64(-1)
										if c, ok := ia.Index.(*ssa.Const); ok {
											idx = c.Int64()
										}
										for _, r2 := range *ia.Referrers() {
											if st, ok := r2.(*ssa.Store); ok {
												elems[idx] = st.Val
												if idx > maxIdx {
													maxIdx = idx
												}
											}
										}
									}
								}
								for k := int64(0); k <= maxIdx; k++ {
									vals = append(vals, elems[k])
								}
								continue
							}
						}
						vals = append(vals, a)
					}
					unbox := func(v ssa.Value) ssa.Value {
						for {
							switch x := v.(type) {
							case *ssa.MakeInterface:
								v = x.X
							case *ssa.ChangeInterface:
								v = x.X
							default:
								return v
							}
						}
					}
					// the format string itself is a constant: text taken from the input must not be read as verbs
					// (a width such as %1000000[1]v makes fmt allocate what the input declares)
					{
						fpos, name := -1, ""
						if callee := ci.Common().StaticCallee(); callee != nil {
							name = callee.Name()
						} else if ci.Common().IsInvoke() {
							name = ci.Common().Method.Name()
						}
						switch {
						case name == "newCodecError":
							fpos = 1
						case name == "Fprintf":
							fpos = 1
						case strings.HasSuffix(name, "f"):
							fpos = 0
						}
						if fn.Name() == "newCodecError" {
							fpos = -1 // the forwarder itself: its format is its caller's argument, checked there
						}
						if fpos >= 0 && fpos < len(vals) && vals[fpos] != nil {
							fv := unbox(vals[fpos])
							if b, ok := fv.Type().Underlying().(*types.Basic); ok && b.Info()&types.IsString != 0 {
								if _, isConst := fv.(*ssa.Const); !isConst {
									bad = append(bad, fmt.Sprintf("%s builds its format string at run time", m.site(ins)))
								}
							}
						}
					}
					// the verbs of a constant format string, in argument order
					var verbs []byte
					fmtAt := -1
					for k, v := range vals {
						if v == nil {
							continue
						}
						if c, ok := unbox(v).(*ssa.Const); ok && c.Value != nil && c.Value.Kind() == constant.String {
							if callee := ci.Common().StaticCallee(); callee != nil && callee.Name() == "newCodecError" && k == 0 {
								continue // the data type name
							}
							f := constant.StringVal(c.Value)
							fmtAt = k
							for p := 0; p < len(f); p++ {
								if f[p] != '%' {
									continue
								}
								p++
								for p < len(f) && strings.IndexByte("+-# 0123456789.[]*", f[p]) >= 0 {
									p++
								}
								if p < len(f) && f[p] != '%' {
									verbs = append(verbs, f[p])
								}
							}
							break
						}
					}
					for k, v := range vals {
						if v == nil {
							continue
						}
						src := unbox(v)
						t := src.Type()
						if call, ok := src.(*ssa.Call); ok {
							if bi, ok := call.Call.Value.(*ssa.Builtin); ok && bi.Name() == "recover" {
								continue
							}
						}
						if ue, ok := src.(*ssa.UnOp); ok {
							// a recovered value kept in a local of the recovering closure
							_ = ue
						}
						if t.String() == "[]interface{}" {
							continue // the forwarded variadic slice itself (newCodecError -> fmt): its elements are checked at the caller
						}
						if fmtAt >= 0 && k > fmtAt && k-fmtAt-1 < len(verbs) && verbs[k-fmtAt-1] == 'T' {
							continue // %T prints the type only
						}
						if !safeArg(t) {
							bad = append(bad, fmt.Sprintf("%s formats a %s", m.site(ins), t.String()))
						}
						// an error is chained (newCodecError keeps a trailing error as the cause), never copied into the
						// text of the error that wraps it: one copy per nesting level makes the cost quadratic in the depth
						if isErrorType(t) {
							chained := false
							if callee := ci.Common().StaticCallee(); callee != nil && callee.Name() == "newCodecError" && k == len(vals)-1 {
								chained = true
							}
							if !chained {
								bad = append(bad, fmt.Sprintf("%s copies an error into a message", m.site(ins)))
							}
						}
					}
				}
			}
			if len(bad) > 0 || infos[fn] != nil {
				why := strings.Join(bad, "; ")
				if len(why) > 300 {
					why = why[:300] + "..."
				}
				rep.Obligs = append(rep.Obligs, m.pkgObl("safe-format", funcKey(fn), []string{"C14"}, len(bad) == 0, why, "messages built on the decode path name types, never decoded values"))
			}
		}
		for _, key := range pc.DecodeEntries {
			fn := m.findFunc(key)
			ok, why := false, "no such function"
			if fn != nil {
				why = escapes[fn]
				ok = why == ""
				if len(why) > 300 {
					why = why[:300] + "..."
				}
			}
			rep.Obligs = append(rep.Obligs, m.pkgObl("panic-guarded", key, []string{"C14"}, ok, why, "every path from this entry point to a reflect operation passes a function that recovers"))
		}
	}
	// an address used as a map key must be held in a pointer-typed field: an integer does not keep the object
	// alive, and the collector may hand the address to another object while the key is still in the table
	for _, tf := range pc.PointerFields {
		ok, why := false, "no such field"
		if i := strings.LastIndex(tf, "."); i > 0 {
			if obj := m.pkg.Pkg.Scope().Lookup(tf[:i]); obj != nil {
				if st, isStruct := obj.Type().Underlying().(*types.Struct); isStruct {
					for k := 0; k < st.NumFields(); k++ {
						if st.Field(k).Name() == tf[i+1:] {
							ft := st.Field(k).Type()
							why = "has type " + ft.String()
							switch u := ft.Underlying().(type) {
							case *types.Pointer:
								ok = true
							case *types.Basic:
								ok = u.Kind() == types.UnsafePointer
							}
						}
					}
				}
			}
		}
		rep.Obligs = append(rep.Obligs, m.pkgObl("pointer-field", tf, []string{"C04", "C02"}, ok, why, "the address kept in this field keeps its object alive"))
	}
	props := []string{"C12"}
	isRef := func(t types.Type) bool {
		switch t.Underlying().(type) {
		case *types.Slice, *types.Map, *types.Pointer, *types.Chan:
			return true
		}
		return false
	}
	for _, fn := range fns {
		key := funcKey(fn)
		if pc.InitOnly[key] || fn.Synthetic != "" && key != "init" || key == "init" {
			if key == "init" || pc.InitOnly[key] {
				continue
			}
		}
		badStore, badGlobal, badUse := []string{}, []string{}, []string{}
		for _, b := range fn.Blocks {
			for _, ins := range b.Instrs {
				site := m.site(ins)
				switch x := ins.(type) {
				case *ssa.Store:
					if g := globalRoot(x.Addr, 0); g != nil && g.Pkg == m.pkg {
						badStore = append(badStore, g.Name()+"@"+site)
					}
					// field writers (C17 P4)
					if fa, ok := x.Addr.(*ssa.FieldAddr); ok {
						if pt, ok := fa.X.Type().Underlying().(*types.Pointer); ok {
							if nt, ok := pt.Elem().(*types.Named); ok {
								if st, ok := nt.Underlying().(*types.Struct); ok {
									fk := nt.Obj().Name() + "." + st.Field(fa.Field).Name()
									if allowed, has := pc.FieldWriters[fk]; has {
										okw := false
										for _, a := range allowed {
											if a == key {
												okw = true
											}
										}
										rep.Obligs = append(rep.Obligs, m.pkgObl("field-writers", fk+" in "+key, pc.FieldWriterProps[fk], okw, site, "only "+strings.Join(allowed, ", ")+" may store to "+fk))
									}
								}
							}
						}
					}
				case *ssa.MapUpdate:
					if g := globalRoot(x.Map, 0); g != nil && g.Pkg == m.pkg {
						badStore = append(badStore, g.Name()+"@"+site)
					}
				case *ssa.Send:
					if g := globalRoot(x.Chan, 0); g != nil && g.Pkg == m.pkg {
						badStore = append(badStore, g.Name()+"@"+site)
					}
				}
				// any mention of a package-level variable of this package must be in the read-only frame
				for _, op := range ins.Operands(nil) {
					if op == nil || *op == nil {
						continue
					}
					g, ok := (*op).(*ssa.Global)
					if !ok || g.Pkg != m.pkg {
						continue
					}
					if !pc.ReadOnly[g.Name()] {
						badGlobal = append(badGlobal, g.Name()+"@"+site)
					}
				}
				// a reference loaded from a read-only global may only be read
				if call, ok := ins.(ssa.CallInstruction); ok {
					com := call.Common()
					name := "dynamic"
					if com.IsInvoke() {
						name = ifaceMethodKey(com)
					} else if bi, ok := com.Value.(*ssa.Builtin); ok {
						name = "builtin:" + bi.Name()
					} else if callee := com.StaticCallee(); callee != nil {
						name = callee.String()
						if callee.Pkg == m.pkg {
							name = funcKey(callee)
						}
					}
					args := com.Args
					if com.IsInvoke() {
						args = append([]ssa.Value{com.Value}, args...)
					}
					for _, a := range args {
						if !isRef(a.Type()) {
							continue
						}
						if g := globalRoot(a, 0); g != nil && g.Pkg == m.pkg && !pc.ReadOnlyUses[name] {
							badUse = append(badUse, fmt.Sprintf("%s passed to %s@%s", g.Name(), name, site))
						}
					}
				}
			}
		}
		rep.Obligs = append(rep.Obligs,
			m.pkgObl("no-global-store", key, props, len(badStore) == 0, strings.Join(badStore, " "), "no store, map update or send through a package-level variable"),
			m.pkgObl("global-frame", key, props, len(badGlobal) == 0, strings.Join(badGlobal, " "), "only the declared read-only package-level variables are mentioned"),
			m.pkgObl("global-readonly-use", key, props, len(badUse) == 0, strings.Join(badUse, " "), "references loaded from read-only globals are passed only to declared read-only uses"))
	}
	return rep
}

// closureRecovers: the closure calls recover() (it is a recovery handler, not work done for its maker).
func closureRecovers(cl *ssa.Function) (bool, string) {
	for _, b := range cl.Blocks {
		for _, ci := range b.Instrs {
			if call, ok := ci.(*ssa.Call); ok {
				if bi, ok := call.Call.Value.(*ssa.Builtin); ok && bi.Name() == "recover" {
					return true, ""
				}
			}
		}
	}
	return false, ""
}

// recoversPanics: fn defers (in its entry block, before any other call) a closure that calls
// recover() and stores to a captured *error.
func recoversPanics(fn *ssa.Function) (bool, string) {
	if len(fn.Blocks) == 0 {
		return false, "no body"
	}
	for _, ins := range fn.Blocks[0].Instrs {
		switch x := ins.(type) {
		case *ssa.Defer:
			mc, ok := x.Call.Value.(*ssa.MakeClosure)
			if !ok {
				return false, "deferred call is not a closure"
			}
			cl := mc.Fn.(*ssa.Function)
			callsRecover, storesErr := false, false
			for _, b := range cl.Blocks {
				for _, ci := range b.Instrs {
					if call, ok := ci.(*ssa.Call); ok {
						if bi, ok := call.Call.Value.(*ssa.Builtin); ok && bi.Name() == "recover" {
							callsRecover = true
						}
					}
					if st, ok := ci.(*ssa.Store); ok {
						if fv, ok := st.Addr.(*ssa.FreeVar); ok {
							if pt, ok := fv.Type().(*types.Pointer); ok && isErrorType(pt.Elem()) {
								storesErr = true
							}
						}
					}
				}
			}
			if callsRecover && storesErr {
				return true, ""
			}
			return false, "the deferred closure does not recover into the error result"
		case *ssa.Call:
			return false, "a call precedes the deferred recover"
		}
	}
	return false, "no deferred recover in the entry block"
}
