package main

// Package-level frame obligations (C12 F1-F2, C17 P4): structural facts about
// every function body of the package, checked on the SSA.

import (
	"fmt"
	"go/types"
	"sort"
	"strings"

	"golang.org/x/tools/go/ssa"
)

func (m *Machine) pkgObl(kind, label string, props []string, ok bool, site, src string) *Obligation {
	st := "unsat"
	if !ok {
		st = "sat"
	}
	return &Obligation{Fn: "package", Kind: kind, Label: label, Props: props, Goal: mkBool(ok), Site: site, Src: src,
		Res: &SolveResult{Status: st, Backend: "ssa-scan"}}
}

// globalRoot follows address computations back to a package-level variable.
func globalRoot(v ssa.Value, depth int) *ssa.Global {
	if depth > 20 {
		return nil
	}
	switch x := v.(type) {
	case *ssa.Global:
		return x
	case *ssa.IndexAddr:
		return globalRoot(x.X, depth+1)
	case *ssa.FieldAddr:
		return globalRoot(x.X, depth+1)
	case *ssa.Slice:
		return globalRoot(x.X, depth+1)
	case *ssa.UnOp: // load of a global holding a reference (slice, map, pointer)
		return globalRoot(x.X, depth+1)
	case *ssa.ChangeType:
		return globalRoot(x.X, depth+1)
	case *ssa.Convert:
		return globalRoot(x.X, depth+1)
	case *ssa.Phi:
		for _, e := range x.Edges {
			if g := globalRoot(e, depth+1); g != nil {
				return g
			}
		}
	}
	return nil
}

func (m *Machine) packageScan() *FuncReport {
	rep := &FuncReport{Key: "package"}
	pc := m.contracts.Pkg
	if pc == nil {
		rep.Unsup = "no package contract"
		return rep
	}
	var fns []*ssa.Function
	for fn := range ssaAllFunctions(m.prog, m.pkg) {
		fns = append(fns, fn)
	}
	sort.Slice(fns, func(i, j int) bool { return funcKey(fns[i]) < funcKey(fns[j]) })
	// C14: the documented decode entry points turn panics of the reflective assembly into errors
	for _, key := range pc.RecoverPoints {
		fn := m.findFunc(key)
		ok := false
		why := "no such function"
		if fn != nil {
			ok, why = recoversPanics(fn)
		}
		rep.Obligs = append(rep.Obligs, m.pkgObl("recovers", key, []string{"C14"}, ok, why, "a deferred closure calls recover() and assigns the error result"))
	}
	props := []string{"C12"}
	isRef := func(t types.Type) bool {
		switch t.Underlying().(type) {
		case *types.Slice, *types.Map, *types.Pointer, *types.Chan:
			return true
		}
		return false
	}
	for _, fn := range fns {
		key := funcKey(fn)
		if pc.InitOnly[key] || fn.Synthetic != "" && key != "init" || key == "init" {
			if key == "init" || pc.InitOnly[key] {
				continue
			}
		}
		badStore, badGlobal, badUse := []string{}, []string{}, []string{}
		for _, b := range fn.Blocks {
			for _, ins := range b.Instrs {
				site := m.site(ins)
				switch x := ins.(type) {
				case *ssa.Store:
					if g := globalRoot(x.Addr, 0); g != nil && g.Pkg == m.pkg {
						badStore = append(badStore, g.Name()+"@"+site)
					}
					// field writers (C17 P4)
					if fa, ok := x.Addr.(*ssa.FieldAddr); ok {
						if pt, ok := fa.X.Type().Underlying().(*types.Pointer); ok {
							if nt, ok := pt.Elem().(*types.Named); ok {
								if st, ok := nt.Underlying().(*types.Struct); ok {
									fk := nt.Obj().Name() + "." + st.Field(fa.Field).Name()
									if allowed, has := pc.FieldWriters[fk]; has {
										okw := false
										for _, a := range allowed {
											if a == key {
												okw = true
											}
										}
										rep.Obligs = append(rep.Obligs, m.pkgObl("field-writers", fk+" in "+key, []string{"C17"}, okw, site, "only "+strings.Join(allowed, ", ")+" may store to "+fk))
									}
								}
							}
						}
					}
				case *ssa.MapUpdate:
					if g := globalRoot(x.Map, 0); g != nil && g.Pkg == m.pkg {
						badStore = append(badStore, g.Name()+"@"+site)
					}
				case *ssa.Send:
					if g := globalRoot(x.Chan, 0); g != nil && g.Pkg == m.pkg {
						badStore = append(badStore, g.Name()+"@"+site)
					}
				}
				// any mention of a package-level variable of this package must be in the read-only frame
				for _, op := range ins.Operands(nil) {
					if op == nil || *op == nil {
						continue
					}
					g, ok := (*op).(*ssa.Global)
					if !ok || g.Pkg != m.pkg {
						continue
					}
					if !pc.ReadOnly[g.Name()] {
						badGlobal = append(badGlobal, g.Name()+"@"+site)
					}
				}
				// a reference loaded from a read-only global may only be read
				if call, ok := ins.(ssa.CallInstruction); ok {
					com := call.Common()
					name := "dynamic"
					if com.IsInvoke() {
						name = ifaceMethodKey(com)
					} else if bi, ok := com.Value.(*ssa.Builtin); ok {
						name = "builtin:" + bi.Name()
					} else if callee := com.StaticCallee(); callee != nil {
						name = callee.String()
						if callee.Pkg == m.pkg {
							name = funcKey(callee)
						}
					}
					args := com.Args
					if com.IsInvoke() {
						args = append([]ssa.Value{com.Value}, args...)
					}
					for _, a := range args {
						if !isRef(a.Type()) {
							continue
						}
						if g := globalRoot(a, 0); g != nil && g.Pkg == m.pkg && !pc.ReadOnlyUses[name] {
							badUse = append(badUse, fmt.Sprintf("%s passed to %s@%s", g.Name(), name, site))
						}
					}
				}
			}
		}
		rep.Obligs = append(rep.Obligs,
			m.pkgObl("no-global-store", key, props, len(badStore) == 0, strings.Join(badStore, " "), "no store, map update or send through a package-level variable"),
			m.pkgObl("global-frame", key, props, len(badGlobal) == 0, strings.Join(badGlobal, " "), "only the declared read-only package-level variables are mentioned"),
			m.pkgObl("global-readonly-use", key, props, len(badUse) == 0, strings.Join(badUse, " "), "references loaded from read-only globals are passed only to declared read-only uses"))
	}
	return rep
}

// recoversPanics: fn defers (in its entry block, before any other call) a closure that calls
// recover() and stores to a captured *error.
func recoversPanics(fn *ssa.Function) (bool, string) {
	if len(fn.Blocks) == 0 {
		return false, "no body"
	}
	for _, ins := range fn.Blocks[0].Instrs {
		switch x := ins.(type) {
		case *ssa.Defer:
			mc, ok := x.Call.Value.(*ssa.MakeClosure)
			if !ok {
				return false, "deferred call is not a closure"
			}
			cl := mc.Fn.(*ssa.Function)
			callsRecover, storesErr := false, false
			for _, b := range cl.Blocks {
				for _, ci := range b.Instrs {
					if call, ok := ci.(*ssa.Call); ok {
						if bi, ok := call.Call.Value.(*ssa.Builtin); ok && bi.Name() == "recover" {
							callsRecover = true
						}
					}
					if st, ok := ci.(*ssa.Store); ok {
						if fv, ok := st.Addr.(*ssa.FreeVar); ok {
							if pt, ok := fv.Type().(*types.Pointer); ok && isErrorType(pt.Elem()) {
								storesErr = true
							}
						}
					}
				}
			}
			if callsRecover && storesErr {
				return true, ""
			}
			return false, "the deferred closure does not recover into the error result"
		case *ssa.Call:
			return false, "a call precedes the deferred recover"
		}
	}
	return false, "no deferred recover in the entry block"
}
