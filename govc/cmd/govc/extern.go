package main

// Trusted external models (DESIGN §3.2): io, bytes, encoding/binary, math,
// strings, errors/fmt, time, logger.  Every use is recorded in the path's
// assumption list and ends up in the evidence.

import (
	"fmt"
	"go/types"

	"golang.org/x/tools/go/ssa"
)

var extHandlers map[string]extHandler
var invokeHandlers map[string]extHandler

func init() {
	extHandlers = map[string]extHandler{
		"io.ReadFull":                        extReadFull,
		"(encoding/binary.bigEndian).Uint16": extBigEndian(2),
		"(encoding/binary.bigEndian).Uint32": extBigEndian(4),
		"(encoding/binary.bigEndian).Uint64": extBigEndian(8),
		"math.Float32bits":                   extFloatBits(32),
		"math.Float64bits":                   extFloatBits(64),
		"math.Float32frombits":               extFloatFromBits,
		"math.Float64frombits":               extFloatFromBits,
		"newCodecError":                      extNewError,
		"errors.New":                         extNewError,
		"fmt.Errorf":                         extNewError,
		"fmt.Sprintf":                        extFreshStr,
		"strings.Contains":                   extStrPred("s.contains"),
		"strings.Compare":                    extStrCompare,
		"(reflect.Value).MapKeys":            extMapKeys,
		"math.Abs":                           extFP1("fp.abs"),
		"math.IsNaN":                         extFPPred("fp.isNaN"),
		"math.IsInf":                         extIsInf,
		"strings.LastIndex":                  extLastIndex,
		"(time.Time).IsZero":                 extTimeFn("T.iszero", SBool),
		"(time.Time).Unix":                   extTimeUnix,
		"(time.Time).UnixNano":               extTimeUnixNano,
		"(time.Time).Nanosecond":             extTimeNanosecond,
		"time.Unix":                          extTimeMake,
		"bytes.NewBuffer":                    extNewBuffer,
		"(*bytes.Buffer).WriteByte":          extBufWriteByte,
		"(*bytes.Buffer).Write":              extBufWrite,
		"(*bytes.Buffer).Bytes":              extBufBytes,
		"bytes.NewReader":                    extOpaque("bytes.Reader"),
		"bufio.NewReader":                    extOpaque("bufio.Reader"),
	}
	invokeHandlers = map[string]extHandler{
		"error.Error":                          extErrMsg,
		"github.com/vogo/logger.Logger.Debugf": extNoop,
		"*.Debugf":                             extNoop,
		"io.Writer.Write":                      extWriterWrite,
		"io.RuneReader.ReadRune":               extReadRune,
		"ByteRuneReader.ReadRune":              extReadRune,
	}
}

func extNoop(m *Machine, c *Config, call ssa.CallInstruction, args []Value) []extOutcome {
	c.st.trust("A-LOG")
	return []extOutcome{{cond: TTrue}}
}

func extOpaque(name string) extHandler {
	return func(m *Machine, c *Config, call ssa.CallInstruction, args []Value) []extOutcome {
		sig := call.Common().Signature()
		return []extOutcome{{cond: TTrue, res: []Value{m.freshValue(name, sig.Results().At(0).Type())}}}
	}
}

// input stream ghost: @in (Bytes), @pos with 0 <= @pos <= len(@in) <= 2^40.
func (m *Machine) inputState(st *State) (arr, n, pos Term) {
	_, hadPos := st.ghost["@pos"]
	in := m.ghost(st, "@in").(Term)
	pos = m.ghost(st, "@pos").(Term)
	n = app(SBV64, "blen", in)
	arr = app(SArr8, "barr", in)
	if !hadPos {
		st.assume(BVUle(pos, n))
		st.assume(BVUle(n, BVLitI(1<<40, 64)))
	}
	return
}

func extReadFull(m *Machine, c *Config, call ssa.CallInstruction, args []Value) []extOutcome {
	st := c.st
	buf, ok := args[1].(*SliceV)
	if !ok {
		m.unsup("io.ReadFull into %T", args[1])
	}
	inarr, n, pos := m.inputState(st)
	L := buf.Len
	avail := BVSub(n, pos)
	okc := BVUle(L, avail)
	eofErr := Ite(Eq(avail, BVLitI(0, 64)), Sym("err.EOF", SErr), Sym("err.UnexpectedEOF", SErr))
	return []extOutcome{
		{cond: okc, res: []Value{L, Sym("err.nil", SErr)}, apply: func(s *State) {
			darr := m.loadArr(s, buf.Obj)
			s.mem[cellKey{buf.Obj, ""}] = m.copyArr(s, darr, buf.Off, inarr, pos, L, SBV8)
			s.ghost["@pos"] = BVAdd(pos, L)
		}},
		{cond: Not(okc), res: []Value{avail, eofErr}, apply: func(s *State) {
			darr := m.loadArr(s, buf.Obj)
			s.mem[cellKey{buf.Obj, ""}] = m.copyArr(s, darr, buf.Off, inarr, pos, avail, SBV8)
			s.ghost["@pos"] = n
		}},
	}
}

func extReadRune(m *Machine, c *Config, call ssa.CallInstruction, args []Value) []extOutcome {
	st := c.st
	in := m.ghost(st, "@in").(Term)
	_, n, pos := m.inputState(st)
	avail := BVSub(n, pos)
	has := Not(Eq(avail, BVLitI(0, 64)))
	w := app(SBV64, "utf8.width", in, pos) // 1..4, never beyond the input
	r := app(SBV32, "utf8.rune", in, pos)
	return []extOutcome{
		{cond: has, res: []Value{r, w, Sym("err.nil", SErr)}, apply: func(s *State) {
			s.assume(And(BVUge(w, BVLitI(1, 64)), BVUle(w, BVLitI(4, 64)), BVUle(w, avail)))
			s.ghost["@pos"] = BVAdd(pos, w)
		}},
		{cond: Not(has), res: []Value{BVLitI(0, 32), BVLitI(0, 64), Sym("err.EOF", SErr)}},
	}
}

func extBigEndian(n int) extHandler {
	return func(m *Machine, c *Config, call ssa.CallInstruction, args []Value) []extOutcome {
		b, ok := args[1].(*SliceV)
		if !ok {
			m.unsup("BigEndian on %T", args[1])
		}
		// the real function indexes b[n-1] first: panics when the slice is too short
		m.safety(c, "safe-index", BVUge(b.Len, BVLitI(int64(n), 64)), call.Pos())
		c.st.assume(BVUge(b.Len, BVLitI(int64(n), 64)))
		arr := m.loadArr(c.st, b.Obj)
		r := Select(arr, b.Off)
		for i := 1; i < n; i++ {
			r = Concat(r, Select(arr, BVAdd(b.Off, BVLitI(int64(i), 64))))
		}
		return []extOutcome{{cond: TTrue, res: []Value{r}}}
	}
}

func extFloatBits(w int) extHandler {
	return func(m *Machine, c *Config, call ssa.CallInstruction, args []Value) []extOutcome {
		f := args[0].(Term)
		b := m.syms.fresh("fbits", BVSort(w))
		// b is a bit pattern of f (for NaN: some NaN pattern)
		c.st.assume(Eq(FPOfBits(b), f))
		return []extOutcome{{cond: TTrue, res: []Value{b}}}
	}
}

func extFloatFromBits(m *Machine, c *Config, call ssa.CallInstruction, args []Value) []extOutcome {
	return []extOutcome{{cond: TTrue, res: []Value{FPOfBits(args[0].(Term))}}}
}

func (m *Machine) newError(st *State, base string) Term {
	e := m.syms.fresh(base, SErr)
	st.assume(Not(Eq(e, Sym("err.nil", SErr))))
	st.assume(Not(Eq(e, Sym("err.EOF", SErr))))
	st.ghost["@E"] = TTrue
	return e
}

func extNewError(m *Machine, c *Config, call ssa.CallInstruction, args []Value) []extOutcome {
	sig := call.Common().Signature()
	rt := sig.Results().At(0).Type()
	if isErrorType(rt) {
		return []extOutcome{{cond: TTrue, res: []Value{m.newError(c.st, "err")}}}
	}
	// newCodecError returns the struct CodecErr; it becomes an error at MakeInterface
	return []extOutcome{{cond: TTrue, res: []Value{m.syms.fresh("codecErr", SObj)}}}
}

func extFreshStr(m *Machine, c *Config, call ssa.CallInstruction, args []Value) []extOutcome {
	return []extOutcome{{cond: TTrue, res: []Value{m.syms.fresh("sprintf", SStr)}}}
}

func extErrMsg(m *Machine, c *Config, call ssa.CallInstruction, args []Value) []extOutcome {
	e := args[0].(Term)
	return []extOutcome{{cond: TTrue, res: []Value{app(SStr, "err.msg", e)}}}
}

func extStrPred(fn string) extHandler {
	return func(m *Machine, c *Config, call ssa.CallInstruction, args []Value) []extOutcome {
		return []extOutcome{{cond: TTrue, res: []Value{app(SBool, fn, args[0].(Term), args[1].(Term))}}}
	}
}

func extStrCompare(m *Machine, c *Config, call ssa.CallInstruction, args []Value) []extOutcome {
	a, b := args[0].(Term), args[1].(Term)
	r := m.syms.fresh("cmp", SBV64)
	c.st.assume(Eq(Eq(r, BVLitI(0, 64)), Eq(a, b)))
	return []extOutcome{{cond: TTrue, res: []Value{r}}}
}

// ---- time (abstract pair sec,nsec) ----

func extTimeFn(fn string, s Sort) extHandler {
	return func(m *Machine, c *Config, call ssa.CallInstruction, args []Value) []extOutcome {
		return []extOutcome{{cond: TTrue, res: []Value{app(s, fn, args[0].(Term))}}}
	}
}

func extTimeUnix(m *Machine, c *Config, call ssa.CallInstruction, args []Value) []extOutcome {
	return []extOutcome{{cond: TTrue, res: []Value{app(SBV64, "t.sec", args[0].(Term))}}}
}

func extTimeNanosecond(m *Machine, c *Config, call ssa.CallInstruction, args []Value) []extOutcome {
	t := args[0].(Term)
	ns := app(SBV64, "t.nsec", t)
	c.st.assume(And(BVSge(ns, BVLitI(0, 64)), BVSlt(ns, BVLitI(1000000000, 64)))) // type invariant of time.Time
	return []extOutcome{{cond: TTrue, res: []Value{ns}}}
}

// UnixNano: sec*1e9+nsec when representable in int64; undefined (unconstrained) otherwise.
func extTimeUnixNano(m *Machine, c *Config, call ssa.CallInstruction, args []Value) []extOutcome {
	t := args[0].(Term)
	r := m.syms.fresh("unixnano", SBV64)
	c.st.assume(Implies(app(SBool, "T.nanoRepresentable", t), Eq(r, app(SBV64, "T.unixNano", t))))
	return []extOutcome{{cond: TTrue, res: []Value{r}}}
}

// time.Unix(sec, nsec): normalises nsec into [0,1e9) exactly as the standard library does.
func extTimeMake(m *Machine, c *Config, call ssa.CallInstruction, args []Value) []extOutcome {
	sec, nsec := args[0].(Term), args[1].(Term)
	e9 := BVLitI(1000000000, 64)
	zero := BVLitI(0, 64)
	mk := func(s, n Term) Value { return app(STime, "mktime", s, n) }
	inRange := And(BVSge(nsec, zero), BVSlt(nsec, e9))
	if inRange.IsConst() && inRange.C.Sign() != 0 {
		return []extOutcome{{cond: TTrue, res: []Value{mk(sec, nsec)}}}
	}
	n, _, ok := m.divConst(c.st, nsec, e9, true)
	if !ok {
		n = BVSDiv(nsec, e9)
	}
	s2 := BVAdd(sec, n)
	ns2 := BVSub(nsec, BVMul(n, e9))
	neg := BVSlt(ns2, zero)
	return []extOutcome{
		{cond: inRange, res: []Value{mk(sec, nsec)}},
		{cond: And(Not(inRange), neg), res: []Value{mk(BVSub(s2, BVLitI(1, 64)), BVAdd(ns2, e9))}},
		{cond: And(Not(inRange), Not(neg)), res: []Value{mk(s2, ns2)}},
	}
}

// ---- bytes.Buffer: content is a token stream (ghost cell of the buffer object) ----

func extNewBuffer(m *Machine, c *Config, call ssa.CallInstruction, args []Value) []extOutcome {
	sig := call.Common().Signature()
	pt := sig.Results().At(0).Type()
	obj := m.newObj("bytesBuffer", pt.(*types.Pointer).Elem(), false, "")
	init, ok := args[0].(*SliceV)
	if !ok || !(init.Len.IsConst() && init.Len.C.Sign() == 0) {
		m.unsup("bytes.NewBuffer with non-empty initial contents")
	}
	c.st.mem[cellKey{obj, "#content"}] = Sym("emp", SStrm)
	return []extOutcome{{cond: TTrue, res: []Value{&PtrV{Obj: obj, Typ: pt}}}}
}

func bufContent(m *Machine, st *State, v Value) (*Obj, Term) {
	p, ok := v.(*PtrV)
	if !ok || p.Obj == nil {
		m.unsup("bytes.Buffer receiver %T", v)
	}
	t, ok := st.mem[cellKey{p.Obj, "#content"}].(Term)
	if !ok {
		t = m.syms.fresh("bufcontent", SStrm)
		st.mem[cellKey{p.Obj, "#content"}] = t
	}
	return p.Obj, t
}

func extBufWriteByte(m *Machine, c *Config, call ssa.CallInstruction, args []Value) []extOutcome {
	obj, cur := bufContent(m, c.st, args[0])
	b := args[1].(Term)
	c.st.mem[cellKey{obj, "#content"}] = app(SStrm, "snoc", cur, app(STok, "TByte", b))
	return []extOutcome{{cond: TTrue, res: []Value{Sym("err.nil", SErr)}}}
}

func extBufWrite(m *Machine, c *Config, call ssa.CallInstruction, args []Value) []extOutcome {
	obj, cur := bufContent(m, c.st, args[0])
	sl, ok := args[1].(*SliceV)
	if !ok {
		m.unsup("Buffer.Write of %T", args[1])
	}
	c.st.mem[cellKey{obj, "#content"}] = m.appendTokens(c.st, cur, sl)
	return []extOutcome{{cond: TTrue, res: []Value{sl.Len, Sym("err.nil", SErr)}}}
}

func extBufBytes(m *Machine, c *Config, call ssa.CallInstruction, args []Value) []extOutcome {
	_, cur := bufContent(m, c.st, args[0])
	sig := call.Common().Signature()
	r := m.freshValue("bufbytes", sig.Results().At(0).Type()).(*SliceV)
	m.sliceWF(c.st, r)
	r.Nil = TFalse
	if p, ok := args[0].(*PtrV); ok && p.Obj != nil && !p.Obj.Sym && m.cur != nil && p.Obj.ID > m.cur.entryObjN {
		// the buffer was allocated by the verified function: so is the memory Bytes() returns
		r.Obj.Sym = false
	}
	// the returned bytes are the flattening of the token stream
	c.st.assume(Eq(app(SStrm, "streamOf", m.packTerm(c.st, r, SBytes)), cur))
	m.provenance[r.Obj] = cur
	return []extOutcome{{cond: TTrue, res: []Value{r}}}
}

// appendTokens appends the tokens a written byte slice stands for: literal
// octets for short constant-length slices, a TRunes window for UTF-8 produced
// from a rune slice, the declared token of a contracted leaf encoder, and a
// byte window of the backing sequence otherwise.
func (m *Machine) appendTokens(st *State, strm Term, sl *SliceV) Term {
	if t, ok := m.sliceTok[sl.Obj]; ok && sl.Off.IsConst() && sl.Off.C.Sign() == 0 {
		return app(SStrm, "snoc", strm, t)
	}
	if sl.Len.IsConst() && sl.Len.C.Int64() <= 8 {
		arr := m.loadArr(st, sl.Obj)
		for i := int64(0); i < sl.Len.C.Int64(); i++ {
			strm = app(SStrm, "snoc", strm, app(STok, "TByte", Select(arr, BVAdd(sl.Off, BVLitI(i, 64)))))
		}
		return strm
	}
	var full Term
	if f, ok := m.objFull[sl.Obj]; ok {
		full = f
	} else {
		full = app(SBytes, "mkbytes", m.loadArr(st, sl.Obj), BVAdd(sl.Off, sl.Len))
	}
	return app(SStrm, "snoc", strm, app(STok, "TWin", full, sl.Off, BVAdd(sl.Off, sl.Len)))
}

// io.Writer.Write(p): 0 <= n <= len(p); @W' = @W || err != nil || n < len(p);
// n == len(p) ==> @out' = snoc(@out, tokenOf(p)); otherwise @out' unconstrained.
func extWriterWrite(m *Machine, c *Config, call ssa.CallInstruction, args []Value) []extOutcome {
	st := c.st
	sl, ok := args[1].(*SliceV)
	if !ok {
		m.unsup("Writer.Write of %T", args[1])
	}
	n := m.syms.fresh("wn", SBV64)
	e := m.syms.fresh("werr", SErr)
	st.assume(And(BVSge(n, BVLitI(0, 64)), BVSle(n, sl.Len)))
	out := m.ghost(st, "@out").(Term)
	w := m.ghost(st, "@W").(Term)
	full := Eq(n, sl.Len)
	nout := m.syms.fresh("@out", SStrm)
	st.assume(Implies(full, Eq(nout, m.appendTokens(st, out, sl))))
	st.ghost["@out"] = nout
	st.ghost["@W"] = Or(w, Not(Eq(e, Sym("err.nil", SErr))), Not(full))
	st.ghost["@nwrites"] = BVAdd(m.ghostOr(st, "@nwrites", BVLitI(0, 64)), BVLitI(1, 64))
	return []extOutcome{{cond: TTrue, res: []Value{n, e}}}
}

func (m *Machine) ghostOr(st *State, name string, def Term) Term {
	if v, ok := st.ghost[name]; ok {
		return v.(Term)
	}
	return def
}

var _ = fmt.Sprintf

func extFP1(op string) extHandler {
	return func(m *Machine, c *Config, call ssa.CallInstruction, args []Value) []extOutcome {
		f := args[0].(Term)
		return []extOutcome{{cond: TTrue, res: []Value{app(f.Sort, op, f)}}}
	}
}

func extFPPred(op string) extHandler {
	return func(m *Machine, c *Config, call ssa.CallInstruction, args []Value) []extOutcome {
		return []extOutcome{{cond: TTrue, res: []Value{app(SBool, op, args[0].(Term))}}}
	}
}

// math.IsInf(f, sign): sign > 0 +Inf, sign < 0 -Inf, sign == 0 either
func extIsInf(m *Machine, c *Config, call ssa.CallInstruction, args []Value) []extOutcome {
	f := args[0].(Term)
	sg := args[1].(Term)
	zero := BVLitI(0, 64)
	inf := app(SBool, "fp.isInfinite", f)
	pos := app(SBool, "fp.isPositive", f)
	r := And(inf, Or(Eq(sg, zero), And(BVSgt(sg, zero), pos), And(BVSlt(sg, zero), Not(pos))))
	return []extOutcome{{cond: TTrue, res: []Value{r}}}
}

// strings.LastIndex(s, sep): -1 or an index with 0 <= r <= len(s)-len(sep).
func extLastIndex(m *Machine, c *Config, call ssa.CallInstruction, args []Value) []extOutcome {
	s, sep := args[0].(Term), args[1].(Term)
	r := app(SBV64, "s.lastindex", s, sep)
	ls, lp := app(SBV64, "s.len", s), app(SBV64, "s.len", sep)
	c.st.assume(Or(Eq(r, BVLitI(-1, 64)), And(BVSge(r, BVLitI(0, 64)), BVSle(r, ls), BVSle(BVAdd(r, lp), ls))))
	return []extOutcome{{cond: TTrue, res: []Value{r}}}
}

// (reflect.Value).MapKeys: a slice whose i-th element is R.mapKey(v, i), of length R.mapLen(v)
// (the order is a function of the map value: assumption A-MAPORDER).
func extMapKeys(m *Machine, c *Config, call ssa.CallInstruction, args []Value) []extOutcome {
	v := args[0].(Term)
	c.st.abstract = true
	c.st.trust("R:(reflect.Value).MapKeys (A-MAPORDER)")
	sig := call.Common().Signature()
	et := sig.Results().At(0).Type().Underlying().(*types.Slice).Elem()
	obj := m.newObj("mapkeys", et, true, SRV)
	c.st.mem[cellKey{obj, ""}] = app(ArraySort(SBV64, SRV), "R.mapKeys", v)
	ln := app(SBV64, "R.mapLen", v)
	c.st.assume(And(BVSge(ln, BVLitI(0, 64)), BVSle(ln, BVLitI(1<<40, 64))))
	return []extOutcome{{cond: TTrue, res: []Value{&SliceV{Obj: obj, Off: BVLitI(0, 64), Len: ln, Cap: ln, Nil: TFalse}}}}
}
