package main

// `govc check`: decide one property on /repo's current working tree.

import (
	"encoding/json"
	"flag"
	"fmt"
	"os"
	"path/filepath"
	"sort"
	"strconv"
	"strings"
	"time"
)

type KnownFinding struct {
	Property   string `json:"property"`
	Obligation string `json:"obligation"`
	Region     string `json:"region,omitempty"`
	What       string `json:"what"`
	Witness    string `json:"witness,omitempty"`
	Status     string `json:"status"` // open | fixed
	Record     string `json:"record,omitempty"`
}

type Evidence struct {
	PropertyID  string                 `json:"property_id"`
	Tier        string                 `json:"tier"`
	Seed        int                    `json:"seed"`
	Level       string                 `json:"level"`
	Coverage    map[string]interface{} `json:"coverage"`
	Assumptions []string               `json:"assumptions"`
	WallS       float64                `json:"wall_s"`
	Violations  int                    `json:"violations"`
}

type checkCtx struct {
	s          *session
	prop       string
	tier       string
	seed       int
	findings   []*KnownFinding
	baseline   map[string]bool
	reports    []*FuncReport
	lines      []string // output lines (KNOWN-FINDING / VIOLATION / notes)
	violations int
	undecided  []string
	start      time.Time
	outDir     string
	ev         *Evidence
	post       func(*Evidence)
}

func loadFindings(path string) ([]*KnownFinding, error) {
	b, err := os.ReadFile(path)
	if err != nil {
		if os.IsNotExist(err) {
			return nil, nil
		}
		return nil, err
	}
	var fs []*KnownFinding
	if err := json.Unmarshal(b, &fs); err != nil {
		return nil, fmt.Errorf("%s: %v", path, err)
	}
	return fs, nil
}

func loadBaseline(path string) map[string]bool {
	m := map[string]bool{}
	b, err := os.ReadFile(path)
	if err != nil {
		return m
	}
	var names []string
	if json.Unmarshal(b, &names) == nil {
		for _, n := range names {
			m[n] = true
		}
	}
	return m
}

// propFunctions: functions with at least one clause tagged with the property.
func propFunctions(cf *ContractFile, prop string) []string {
	var keys []string
	for _, k := range cf.Order {
		fc := cf.Funcs[k]
		hit := false
		for _, c := range append(append([]*Clause{}, fc.Ensures...), fc.Proves...) {
			for _, p := range c.Props {
				if p == prop {
					hit = true
				}
			}
		}
		if fc.Measure != nil {
			for _, p := range fc.Measure.Props {
				if p == prop {
					hit = true
				}
			}
		}
		if fc.Depth != nil {
			for _, p := range fc.Depth.Props {
				if p == prop {
					hit = true
				}
			}
		}
		for _, ac := range fc.AtCalls {
			for _, p := range ac.Clause.Props {
				if p == prop {
					hit = true
				}
			}
		}
		for _, lc := range fc.Loops {
			for _, c := range append(append([]*Clause{}, lc.Invariants...), lc.Decreases...) {
				for _, p := range c.Props {
					if p == prop {
						hit = true
					}
				}
			}
		}
		if hit {
			keys = append(keys, k)
		}
	}
	return keys
}

func cmdCheck(args []string) {
	fs := flag.NewFlagSet("check", flag.ExitOnError)
	repo := fs.String("repo", "/repo", "")
	vdir := fs.String("verif", "/verif", "")
	prop := fs.String("prop", "", "property id")
	tier := fs.String("tier", "quick", "")
	writeBaseline := fs.Bool("write-baseline", false, "record the obligations that discharge (unchanged tree only)")
	outDir := fs.String("out", "", "directory for evidence/ and replays/ (default: the verif directory)")
	fs.Parse(args)
	seed := 0
	if v := os.Getenv("VERIF_SEED"); v != "" {
		seed, _ = strconv.Atoi(v)
	}
	if v := os.Getenv("VERIF_TIER"); v != "" && (v == "quick" || v == "thorough") {
		*tier = v
	}
	start := time.Now()
	s, err := openSession(*repo, *vdir, *tier, seed)
	if err != nil {
		fmt.Fprintln(os.Stderr, "ENGINE-ERROR:", err)
		os.Exit(2)
	}
	cc := &checkCtx{s: s, prop: *prop, tier: *tier, seed: seed, start: start, outDir: *vdir}
	if *outDir != "" {
		cc.outDir = *outDir
	}
	cc.findings, err = loadFindings(filepath.Join(*vdir, "known_findings.json"))
	if err != nil {
		fmt.Fprintln(os.Stderr, "ENGINE-ERROR:", err)
		os.Exit(2)
	}
	cc.baseline = loadBaseline(filepath.Join(*vdir, "baseline_obligations.json"))
	code := cc.run(*writeBaseline)
	s.smt.cleanup()
	os.Exit(code)
}

func (cc *checkCtx) openFinding(name string) *KnownFinding {
	for _, f := range cc.findings {
		if f.Status == "open" && f.Obligation == name {
			return f
		}
	}
	return nil
}

func (cc *checkCtx) run(writeBaseline bool) int {
	s := cc.s
	m := s.m
	m.knownRegion = func(fn, kind, label string) (string, bool) {
		if f := cc.openFinding(fn + "/" + kind + ":" + label); f != nil {
			r := f.Region
			if r == "" {
				r = "true"
			}
			return r, true
		}
		return "", false
	}
	// 1. functions: tagged ones plus the dependency closure over used contracts
	todo := propFunctions(s.cf, cc.prop)
	primary := map[string]bool{}
	for _, k := range todo {
		primary[k] = true
	}
	done := map[string]bool{}
	var reports []*FuncReport
	var engineErrs []string
	for len(todo) > 0 {
		k := todo[0]
		todo = todo[1:]
		if done[k] {
			continue
		}
		done[k] = true
		fc := s.cf.Funcs[k]
		m.usedContracts = map[string]bool{}
		opts := verifyOpts{safety: true, safetyProp: safetyPropsFor(k), allocCheck: cc.prop == "C14"}
		rep := m.verifyFunction(k, fc, opts)
		reports = append(reports, rep)
		for _, e := range rep.Errors {
			engineErrs = append(engineErrs, k+": "+e)
		}
		var deps []string
		for d := range m.usedContracts {
			deps = append(deps, d)
		}
		sort.Strings(deps)
		for _, d := range deps {
			if !done[d] {
				todo = append(todo, d)
			}
		}
	}
	if cc.prop != "" {
		rep := m.packageScan()
		var keep []*Obligation
		for _, o := range rep.Obligs {
			for _, p := range o.Props {
				if p == cc.prop {
					keep = append(keep, o)
				}
			}
		}
		rep.Obligs = keep
		reports = append(reports, rep)
	}
	// a clause that does not evaluate on the current source (renamed local, changed shape) is stale:
	// its obligations are undecided, never a pass and never by itself a violation (DESIGN 2.1)
	for _, e := range engineErrs {
		fmt.Println("STALE-CONTRACT:", e)
		cc.undecided = append(cc.undecided, "stale: "+e)
	}
	cc.reports = reports
	// 2. select the obligations that belong to this property's run
	var obs []*Obligation
	for _, rep := range reports {
		for _, o := range rep.Obligs {
			if cc.relevant(o, primary[rep.Key]) {
				obs = append(obs, o)
			}
		}
	}
	workers := 16
	if cc.tier == "thorough" {
		workers = 6 // three back ends per query
	}
	m.solveAll(s.smt, obs, workers)
	// canary: a planted false goal must come back sat
	canary := &Obligation{Fn: "canary", Kind: "ensures", Label: "false", Goal: TFalse, PC: nil}
	m.solveAll(s.smt, []*Obligation{canary}, 1)
	if canary.Res.Status != "sat" {
		fmt.Println("ENGINE-ERROR: canary obligation 'false' did not fail:", canary.Res.Status)
		return 2
	}
	return cc.report(obs, reports, writeBaseline)
}

func safetyPropsFor(key string) []string {
	enc := strings.Contains(key, "Encoder") || strings.HasPrefix(key, "encode") || strings.HasPrefix(key, "lowerName")
	if enc {
		return []string{"C13"}
	}
	return []string{"C14"}
}

// relevant: which obligations count for this property.  Every clause of a
// function in the closure is checked (callers assumed all of them); safety
// obligations count only under the property they are tagged with.
func (cc *checkCtx) relevant(o *Obligation, primary bool) bool {
	if strings.HasPrefix(o.Kind, "safe-") || o.Kind == "alloc-bound" {
		for _, p := range o.Props {
			if p == cc.prop {
				return true
			}
		}
		return false
	}
	return true
}

type obGroup struct {
	name     string
	obs      []*Obligation
	canary   bool // unrestricted clause of an open known finding (expected to fail)
	residual bool
}

func (cc *checkCtx) report(obs []*Obligation, reports []*FuncReport, writeBaseline bool) int {
	s := cc.s
	total, discharged := 0, 0
	slicedN := 0
	var failed []*Obligation
	var unknown []*Obligation
	knownStillFails := map[string]bool{}
	knownSeen := map[string]bool{}
	var samples []interface{}
	assumed := map[string]bool{}
	okNames := map[string]bool{}
	badNames := map[string]bool{}
	var unreachable []string
	reachUnknown := 0
	for _, o := range obs {
		for _, a := range o.Assumed {
			assumed[a] = true
		}
		name := o.Name()
		if o.ExpectSat && o.Kind == "reach" {
			// vacuity guard per return site
			switch {
			case o.Res.Status == "sat":
				total++
				discharged++
				okNames[name] = true
			case o.Res.Status != "unsat":
				// the solver cannot decide satisfiability (quantified axioms in scope): not counted either way
				reachUnknown++
			case cc.baseline[name]:
				// reachable on the unchanged tree, unreachable now: the proofs behind it are vacuous -> undecided
				fmt.Printf("VACUOUS-PATH property=%s %s (%s) is no longer reachable under the assumed contracts: obligations behind it are undecided\n", cc.prop, name, o.Site)
				cc.undecided = append(cc.undecided, "vacuous: "+name)
			default:
				unreachable = append(unreachable, name+" "+o.Site)
			}
			continue
		}
		if o.ExpectSat {
			total++
			if o.Res.Status == "sat" {
				discharged++
			} else if o.Res.Status == "error" {
				// a rejected reachability query: the function's own obligations carry the same terms and are
				// reported below (baseline obligations that no longer discharge); nothing is concluded from this one
				cc.undecided = append(cc.undecided, "rejected query: "+name)
			} else {
				fmt.Printf("ENGINE-ERROR: vacuous precondition in %s (%s)\n", o.Fn, o.Res.Status)
				return 2
			}
			continue
		}
		if o.Res.Status == "error" && !(cc.baseline[name] && !o.ExpectSat && !o.Canary) {
			fmt.Printf("ENGINE-ERROR: solver rejected the query for %s: %s\n", name, firstLine(o.Res.Raw))
			return 2
		}
		// (a rejected query for an obligation that discharges on the unchanged tree falls through: it is reported
		// below like any other baseline obligation that no longer discharges, with the solver's message attached)
		if o.Canary {
			knownSeen[o.CanaryOf] = true
			if o.Res.Status != "unsat" {
				knownStillFails[o.CanaryOf] = true
			}
			continue
		}
		total++
		switch o.Res.Status {
		case "unsat":
			discharged++
			okNames[name] = true
			if o.Res.Sliced {
				slicedN++
			}
		case "sat":
			failed = append(failed, o)
			badNames[name] = true
		default:
			unknown = append(unknown, o)
			badNames[name] = true
		}
		if len(samples) < 6 && o.Res.Backend != "constant-folding" && o.Res.Backend != "" {
			samples = append(samples, map[string]interface{}{"obligation": name, "path": o.Path, "answer": o.Res.Status, "backend": o.Res.Backend, "query_bytes": o.Res.QueryLen, "seconds": round3(o.Res.Seconds)})
		}
	}
	// the slowest obligations of this run (margin against the solver timeouts)
	type slowOb struct {
		Name    string  `json:"obligation"`
		Seconds float64 `json:"seconds"`
		Backend string  `json:"backend"`
	}
	slow := []slowOb{}
	for _, o := range obs {
		if o.Res != nil && o.Res.Seconds > 0.5 {
			slow = append(slow, slowOb{o.Name(), round3(o.Res.Seconds), o.Res.Backend})
		}
	}
	sort.Slice(slow, func(i, j int) bool { return slow[i].Seconds > slow[j].Seconds })
	if len(slow) > 8 {
		slow = slow[:8]
	}
	// known findings
	var kfOut []string
	for _, f := range cc.findings {
		if f.Property != cc.prop || f.Status != "open" {
			continue
		}
		if !knownSeen[f.Obligation] {
			kfOut = append(kfOut, fmt.Sprintf("stale known finding (obligation not generated): %s", f.Obligation))
			continue
		}
		if knownStillFails[f.Obligation] {
			fmt.Printf("KNOWN-FINDING: property=%s %s [%s]\n", cc.prop, f.What, f.Obligation)
			kfOut = append(kfOut, f.Obligation+": still fails, residual checked")
		} else {
			kfOut = append(kfOut, f.Obligation+": no longer fails (stale entry)")
		}
	}
	// undecided functions
	undec := append([]string{}, cc.undecided...)
	var stale []string
	fnInfo := []interface{}{}
	paths := 0
	for _, rep := range reports {
		paths += rep.Paths
		info := map[string]interface{}{"function": rep.Key, "paths": rep.Paths, "obligations": len(rep.Obligs)}
		if rep.Unsup != "" {
			undec = append(undec, rep.Key+": "+rep.Unsup)
			info["undecided"] = rep.Unsup
		} else if rep.Paths == 0 && rep.Key != "package" && rep.Trusted == "" {
			fmt.Printf("ENGINE-ERROR: no feasible path reaches a return in %s (vacuous verification)\n", rep.Key)
			return 2
		}
		if rep.Trusted != "" {
			assumed["trusted-contract:"+rep.Key+" ("+rep.Trusted+")"] = true
			info["trusted"] = rep.Trusted
		}
		if rep.Abstract {
			info["class"] = "ABSTRACT"
		} else {
			info["class"] = "EXACT"
		}
		stale = append(stale, rep.Stale...)
		fnInfo = append(fnInfo, info)
	}
	// violations
	os.MkdirAll(filepath.Join(cc.outDir, "replays"), 0o755)
	reported := map[string]bool{}
	for _, o := range failed {
		name := o.Name()
		if reported[name] {
			continue
		}
		reported[name] = true
		cc.violations++
		path, confirmed := cc.replay(o)
		suffix := ""
		if !confirmed {
			suffix = " no-failing-input-found"
		}
		fmt.Printf("VIOLATION property=%s replay=%s obligation=%s%s\n", cc.prop, path, name, suffix)
	}
	for _, o := range unknown {
		name := o.Name()
		if reported[name] {
			continue
		}
		reported[name] = true
		if cc.baseline[name] && !okNamesOnly(okNames, badNames, name) {
			cc.violations++
			path := cc.replayNoInput(o, "the solvers returned no model (unknown/timeout) for an obligation that discharges on the unchanged tree")
			fmt.Printf("VIOLATION property=%s replay=%s obligation=%s no-failing-input-found\n", cc.prop, path, name)
		} else {
			undec = append(undec, name+": "+o.Res.Status)
		}
	}
	// obligations that discharge on the unchanged tree but were not generated at all now (function fell out of the subset)
	for _, rep := range reports {
		if rep.Unsup == "" {
			continue
		}
		missing := 0
		for n := range cc.baseline {
			if strings.HasPrefix(n, rep.Key+"/") && !okNames[n] && !badNames[n] {
				missing++
			}
		}
		if missing > 0 {
			// the function left the subset the generator handles: obligations that discharge on the unchanged tree
			// can no longer be generated, so what they established is no longer established.  Reported like any other
			// baseline obligation that stopped discharging, with the generator's reason; no input is claimed.
			fmt.Printf("UNDECIDED property=%s function=%s: %s (%d baseline obligations not generated)\n", cc.prop, rep.Key, rep.Unsup, missing)
			cc.violations++
			name := rep.Key + "/not-generated"
			path := filepath.Join(cc.outDir, "replays", sanitize(cc.prop+"-"+name)+".txt")
			os.WriteFile(path, []byte(fmt.Sprintf("property: %s\nfailed obligation: %s\nreason: the verification-condition generator cannot handle the current body of %s (%s); %d obligations of this function that discharge on the unchanged tree were not generated, so they are no longer established\nno solver was run; no failing input is claimed\n", cc.prop, name, rep.Key, rep.Unsup, missing)), 0o644)
			fmt.Printf("VIOLATION property=%s replay=%s obligation=%s no-failing-input-found\n", cc.prop, path, name)
		}
	}
	for _, st := range stale {
		fmt.Println(st)
	}
	if writeBaseline {
		cc.writeBaseline(okNames, badNames)
	}
	// bounded stand-in: in both tiers (the stand-ins take a few seconds).  It exercises what no contract
	// reaches - the reflective re-assembly of decoded values - on the real code; its cases are labelled
	// bounded in the evidence and are never counted as discharged obligations.
	var standins []interface{}
	if os.Getenv("GOVC_NO_STANDIN") == "" {
		sr := cc.runStandin()
		if sr.Ran {
			standins = append(standins, sr)
			seenKF := map[string]bool{}
			for _, k := range sr.Known {
				name := k
				if i := strings.Index(k, " :: "); i >= 0 {
					name = k[:i]
				}
				if f := cc.standinFinding(name); f != nil && !seenKF[f.Obligation] {
					seenKF[f.Obligation] = true
					fmt.Printf("KNOWN-FINDING: property=%s %s [%s]\n", cc.prop, f.What, f.Obligation)
				}
			}
			if sr.Error != "" {
				fmt.Printf("ENGINE-ERROR: %s\n", firstLine(sr.Error))
				undec = append(undec, "stand-in: "+firstLine(sr.Error))
			}
			for i, fl := range sr.Fails {
				if i >= 5 {
					break
				}
				cc.violations++
				path := filepath.Join(cc.outDir, "replays", sanitize(fmt.Sprintf("%s-standin-%d", cc.prop, i))+".txt")
				os.WriteFile(path, []byte(fmt.Sprintf("property: %s\nbounded stand-in case failed on the real code: %s\nrerun: /verif/tools_standin.sh %s %d\n%s\n", cc.prop, fl, cc.prop, cc.seed, sr.Crash)), 0o644)
				fmt.Printf("VIOLATION property=%s replay=%s obligation=standin:%s\n", cc.prop, path, strings.SplitN(fl, " :: ", 2)[0])
			}
		}
	}
	if standins == nil {
		standins = []interface{}{}
	}
	// concordance replay of the EXACT functions in this run (thorough tier)
	concordRuns, concordMismatch := 0, 0
	var concordNotes []string
	if cc.tier == "thorough" || os.Getenv("GOVC_FORCE_CONCORD") != "" {
		keys := map[string]bool{}
		for _, rep := range reports {
			keys[rep.Key] = true
		}
		concordRuns, concordMismatch, concordNotes = cc.concordance(keys)
		if concordMismatch > 0 {
			for _, n := range concordNotes {
				fmt.Println("ENGINE-MISMATCH:", n)
			}
		}
	}
	// evidence
	var trusted []string
	for a := range assumed {
		trusted = append(trusted, a)
	}
	sort.Strings(trusted)
	ev := &Evidence{PropertyID: cc.prop, Tier: cc.tier, Seed: cc.seed, Level: "proof", Violations: cc.violations, WallS: round3(time.Since(cc.start).Seconds())}
	ev.Coverage = map[string]interface{}{
		"obligations":                total,
		"discharged":                 discharged,
		"checker_cmd":                fmt.Sprintf("/verif/bin/govc check -prop %s -tier %s (VC generation over go/ssa of /repo; back ends z3 5.1.0, cvc5 1.0.3, z3 4.8.12)", cc.prop, cc.tier),
		"trusted_base":               trusted,
		"functions_under_contract":   fnInfo,
		"paths":                      paths,
		"by_backend":                 s.smt.byBack,
		"solver_s":                   round3(s.smt.solverS),
		"solver_queries":             s.smt.queries,
		"single_backend_discharges":  s.smt.single,
		"discharged_from_goal_slice": slicedN,
		"slowest_obligations":        slow,
		"samples":                    samples,
		"known_findings":             kfOut,
		"undecided":                  undec,
		"unreachable_returns":        unreachable,
		"reachability_undecided":     reachUnknown,
		"stale_contracts":            stale,
		"bounded_standins":           standins,
		"concordance_runs":           concordRuns,
		"concordance_mismatches":     concordMismatch,
		"concordance_notes":          concordNotes,
	}
	ev.Assumptions = append([]string{
		"A-SSA: go/ssa (x/tools v0.29.0) lowers the source as the compiler executes it",
		"A-SEM: govc's symbolic semantics of SSA (bit-vector integers of Go width, IEEE FP, arrays)",
		"A-SMT: soundness of the back ends (quick: first definite answer; thorough: two agreeing, none sat)",
		"A-PLAT: int is 64 bits, little-endian amd64",
	}, trusted...)
	cc.ev = ev
	if cc.post != nil {
		cc.post(ev)
	}
	b, _ := json.MarshalIndent(ev, "", " ")
	os.MkdirAll(filepath.Join(cc.outDir, "evidence"), 0o755)
	os.WriteFile(filepath.Join(cc.outDir, "evidence", cc.prop+".json"), append(b, '\n'), 0o644)
	fmt.Printf("property=%s tier=%s obligations=%d discharged=%d violations=%d undecided=%d wall=%.1fs\n", cc.prop, cc.tier, total, discharged, cc.violations, len(undec), time.Since(cc.start).Seconds())
	if concordMismatch > 0 {
		return 2
	}
	if cc.violations > 0 {
		return 1
	}
	return 0
}

func okNamesOnly(ok, bad map[string]bool, n string) bool { return false }

func firstLine(s string) string {
	if i := strings.Index(s, "\n"); i >= 0 {
		return s[:i]
	}
	return s
}

func round3(f float64) float64 { return float64(int(f*1000+0.5)) / 1000 }

func (cc *checkCtx) writeBaseline(ok, bad map[string]bool) {
	path := filepath.Join(cc.s.vdir, "baseline_obligations.json")
	cur := loadBaseline(path)
	for n := range ok {
		if !bad[n] {
			cur[n] = true
		}
	}
	var names []string
	for n := range cur {
		names = append(names, n)
	}
	sort.Strings(names)
	b, _ := json.MarshalIndent(names, "", " ")
	os.WriteFile(path, append(b, '\n'), 0o644)
}

// replayNoInput writes a replay file that names the failed obligation and carries the solver output.
func (cc *checkCtx) replayNoInput(o *Obligation, why string) string {
	path := filepath.Join(cc.outDir, "replays", sanitize(cc.prop+"-"+o.Name())+".txt")
	var b strings.Builder
	fmt.Fprintf(&b, "property: %s\nfailed obligation: %s\nclause: %s\npath: %d\nsite: %s\nclass: %s\nreason: %s\n", cc.prop, o.Name(), o.Src, o.Path, o.Site, classOf(o), why)
	fmt.Fprintf(&b, "solver answer: %s (%s)\nper-backend: %v\n--- solver output ---\n%s\n", o.Res.Status, o.Res.Backend, o.Res.Agree, o.Res.Raw)
	if q, ok := cc.s.m.fullQueryOK(cc.s.smt, o); ok {
		fmt.Fprintf(&b, "--- query (SMT-LIB) ---\n%s\n", q)
	}
	os.WriteFile(path, []byte(b.String()), 0o644)
	return path
}

func classOf(o *Obligation) string {
	if o.Abstract {
		return "ABSTRACT"
	}
	return "EXACT"
}
