package main

// Concordance replay (DESIGN §2.7): translation validation of govc's reading of the
// SSA.  For every feasible path of an EXACT function a model of the path condition is
// turned into concrete arguments, the real compiled function is run on them, and its
// concrete results must equal the symbolic results evaluated under that model.  A
// mismatch is an engine error (exit 2), never a verdict about the code.

import (
	"fmt"
	"go/types"
	"math/big"
	"os"
	"path/filepath"
	"strings"
)

type concordCase struct {
	ob    *Obligation
	rio   *replayIO
	lines []string
}

var concordFuncs = []string{"encodeInt", "encodeLong", "encodeDouble", "encodeBoolean", "encodeDate", "decodeIntValue", "decodeLongValue",
	"decodeDoubleValue", "decodeBooleanValue", "decodeDateValue", "intTag", "longTag", "dateTag", "stringTag", "binaryTag",
	"getStringLen", "getBinaryLen", "typedListTag", "untypedListTag", "objectLenTag"}

func (cc *checkCtx) concordance(keys map[string]bool) (runs, mismatches int, notes []string) {
	m := cc.s.m
	var cases []*concordCase
	for _, key := range concordFuncs {
		if !keys[key] {
			continue
		}
		fc := cc.s.cf.Funcs[key]
		fn := m.findFunc(key)
		if fc == nil || fn == nil || fn.Signature.Recv() != nil {
			continue
		}
		m.concord = true
		rep := m.verifyFunction(key, fc, verifyOpts{safety: false})
		m.concord = false
		var covers []*Obligation
		for _, o := range rep.Obligs {
			if o.Kind == "path-cover" && !o.Abstract {
				covers = append(covers, o)
			}
		}
		if len(covers) > 60 {
			// sample evenly: the paths of the big decoders number in the hundreds
			step := len(covers) / 60
			var s []*Obligation
			for i := 0; i < len(covers); i += step + 1 {
				s = append(s, covers[i])
			}
			covers = s
		}
		m.solveAll(cc.s.smt, covers, 8)
		for _, o := range covers {
			if o.Res == nil || o.Res.Status != "sat" {
				continue // infeasible path
			}
			// prefer small input streams
			model := o.Res.Model
			if v, ok := model["(blen ghost0.in)"]; ok {
				if n, ok := parseBVModel(v); !ok || n.Cmp(big.NewInt(40)) > 0 {
					q := m.fullQuery(m.smtRef, o)
					if i := strings.LastIndex(q, "(check-sat)"); i >= 0 {
						q2 := q[:i] + "(assert (bvule (blen ghost0.in) #x0000000000000028))\n" + q[i:]
						if r := cc.s.smt.solve(q2, o.Name()+"#small"); r.Status == "sat" {
							o.Res.Model = r.Model
							m.queryOf[o] = q2
						} else {
							continue
						}
					}
				}
			}
			rio := &replayIO{}
			for _, p := range fn.Params {
				cc.replayParam(o, rio, p, o.Res.Model)
			}
			if rio.unsup != "" {
				continue
			}
			cs := &concordCase{ob: o, rio: rio}
			cases = append(cases, cs)
		}
	}
	if len(cases) == 0 {
		return 0, 0, nil
	}
	// one test file for all cases
	var body strings.Builder
	for i, cs := range cases {
		fn := m.findFunc(cs.ob.Fn)
		sig := fn.Signature
		fmt.Fprintf(&body, "\tfunc() {\n\t\tdefer func() { if r := recover(); r != nil { fmt.Println(\"GOVC-CASE\", %d, \"PANIC\", r) } }()\n", i)
		for _, s := range cs.rio.setup {
			body.WriteString("\t\t" + s + "\n")
		}
		var lhs []string
		for k := 0; k < sig.Results().Len(); k++ {
			lhs = append(lhs, fmt.Sprintf("r%d", k))
		}
		fmt.Fprintf(&body, "\t\t%s := %s(%s)\n", strings.Join(lhs, ", "), fn.Name(), strings.Join(cs.rio.args, ", "))
		for k := 0; k < sig.Results().Len(); k++ {
			rt := sig.Results().At(k).Type()
			v := fmt.Sprintf("r%d", k)
			switch {
			case isErrorType(rt):
				fmt.Fprintf(&body, "\t\tif %s == nil { fmt.Println(\"GOVC-CASE\", %d, \"RESULT\", %d, \"err\", \"nil\") } else { fmt.Println(\"GOVC-CASE\", %d, \"RESULT\", %d, \"err\", \"nonnil\") }\n", v, i, k, i, k)
			case intWidth(rt) > 0 && isSigned(rt):
				fmt.Fprintf(&body, "\t\tfmt.Println(\"GOVC-CASE\", %d, \"RESULT\", %d, \"int\", int64(%s))\n", i, k, v)
			case intWidth(rt) > 0:
				fmt.Fprintf(&body, "\t\tfmt.Println(\"GOVC-CASE\", %d, \"RESULT\", %d, \"uint\", uint64(%s))\n", i, k, v)
			case m.sortOf(rt) == SBool:
				fmt.Fprintf(&body, "\t\tfmt.Println(\"GOVC-CASE\", %d, \"RESULT\", %d, \"bool\", %s)\n", i, k, v)
			case m.sortOf(rt) == SF64:
				fmt.Fprintf(&body, "\t\tfmt.Printf(\"GOVC-CASE %d RESULT %d f64 %%#x\\n\", math.Float64bits(%s))\n", i, k, v)
			case m.sortOf(rt) == STime:
				fmt.Fprintf(&body, "\t\tfmt.Println(\"GOVC-CASE\", %d, \"RESULT\", %d, \"time\", %s.Unix(), %s.Nanosecond())\n", i, k, v, v)
			default:
				if sl, ok := rt.Underlying().(*types.Slice); ok && m.elemSort(sl.Elem()) == SBV8 {
					fmt.Fprintf(&body, "\t\tfmt.Printf(\"GOVC-CASE %d RESULT %d bytes %%d %%x\\n\", len(%s), %s)\n", i, k, v, v)
				}
			}
		}
		if cs.rio.hasIn {
			fmt.Fprintf(&body, "\t\tfmt.Println(\"GOVC-CASE\", %d, \"POS\", rd.pos)\n", i)
		}
		body.WriteString("\t}()\n")
	}
	src := concordHeader + "\nfunc TestGovcConcord(t *testing.T) {\n" + body.String() + "}\n"
	goFile := filepath.Join(cc.s.smt.dir, "zz_govc_concord_test.go")
	os.WriteFile(goFile, []byte(src), 0o644)
	out, err := runOverlayTest(cc.s.repo, goFile, "TestGovcConcord")
	if err != nil && !strings.Contains(out, "GOVC-CASE") {
		return 0, 0, []string{"concordance harness did not run: " + firstLine(out)}
	}
	perCase := map[int][]string{}
	for _, line := range strings.Split(out, "\n") {
		f := strings.Fields(strings.TrimSpace(line))
		if len(f) >= 3 && f[0] == "GOVC-CASE" {
			var i int
			fmt.Sscanf(f[1], "%d", &i)
			switch f[2] {
			case "RESULT":
				perCase[i] = append(perCase[i], "GOVC-RESULT "+strings.Join(f[3:], " "))
			case "POS":
				perCase[i] = append(perCase[i], "GOVC-POS "+strings.Join(f[3:], " "))
			case "PANIC":
				perCase[i] = append(perCase[i], "GOVC-PANIC "+strings.Join(f[3:], " "))
			}
		}
	}
	for i, cs := range cases {
		lines, ok := perCase[i]
		if !ok {
			continue
		}
		runs++
		// the symbolic results on this path, under the model, must equal the concrete results:
		// (pc, inputs = model, results = concrete) must be satisfiable
		okc, detail := cc.concordCheck(cs.ob, cs.rio, strings.Join(lines, "\n"))
		if !okc {
			mismatches++
			if len(notes) < 5 {
				notes = append(notes, fmt.Sprintf("%s path %d: %s", cs.ob.Fn, cs.ob.Path, detail))
			}
		}
	}
	return
}

const concordHeader = `package hessian

import (
	"fmt"
	"io"
	"math"
	"testing"
	"time"
	"unicode/utf8"
)

var _ = math.Pi
var _ = io.EOF
var _ = time.Now
var _ = utf8.RuneError

type govcReader struct {
	data []byte
	pos  int
}

func (r *govcReader) Read(p []byte) (int, error) {
	if r.pos >= len(r.data) {
		return 0, io.EOF
	}
	n := copy(p, r.data[r.pos:])
	r.pos += n
	return n, nil
}

func (r *govcReader) ReadRune() (rune, int, error) {
	if r.pos >= len(r.data) {
		return 0, 0, io.EOF
	}
	c, w := utf8.DecodeRune(r.data[r.pos:])
	r.pos += w
	return c, w, nil
}
`

// concordCheck: pc ∧ inputs = model ∧ results = concrete must be satisfiable.
func (cc *checkCtx) concordCheck(o *Obligation, rio *replayIO, out string) (bool, string) {
	if strings.Contains(out, "GOVC-PANIC") {
		return false, "the real code panicked on a path the engine considers panic-free: " + grepLine(out, "GOVC-PANIC")
	}
	fixes := cc.resultFixes(o, rio, out)
	q := cc.s.m.fullQuery(cc.s.smt, o)
	i := strings.LastIndex(q, "(check-sat)")
	if i < 0 {
		return false, "no query"
	}
	q2 := q[:i] + strings.Join(fixes, "\n") + "\n(check-sat)\n"
	res := cc.s.smt.solve(q2, o.Name()+"#concord")
	switch res.Status {
	case "sat":
		return true, ""
	case "unsat":
		if dir := os.Getenv("GOVC_CONCORD_KEEP"); dir != "" {
			os.MkdirAll(dir, 0o755)
			os.WriteFile(filepath.Join(dir, sanitize(o.Name())+fmt.Sprintf("-p%d.smt2", o.Path)), []byte(q2), 0o644)
		}
		return false, fmt.Sprintf("symbolic results differ from the real code's results (%v): ", res.Agree) + strings.ReplaceAll(out, "\n", "; ")
	}
	return true, "undecided"
}
