package main

// Bounded stand-ins (DESIGN §5): run through `go test -overlay` against the real
// code when a function is undecided in the quick tier, and always in the thorough
// tier.  Their results are labelled bounded and are never counted as discharged
// obligations.

import (
	"bytes"
	"context"
	"fmt"
	"os"
	"os/exec"
	"path/filepath"
	"regexp"
	"strconv"
	"strings"
	"time"
)

type standinResult struct {
	Ran      bool     `json:"ran"`
	Cases    int      `json:"cases"`
	Distinct int      `json:"distinct_cases"`
	Fails    []string `json:"failures"`
	Known    []string `json:"known_findings"`
	Bound    string   `json:"bound"`
	Seconds  float64  `json:"seconds"`
	Label    string   `json:"label"`
	Error    string   `json:"error,omitempty"`
	Crash    string   `json:"crash,omitempty"`
}

var standinProps = map[string]bool{"C01": true, "C02": true, "C03": true, "C04": true, "C05": true, "C06": true, "C07": true, "C08": true, "C09": true, "C10": true, "C11": true, "C13": true, "C14": true, "C15": true, "C16": true, "C17": true}

func (cc *checkCtx) runStandin() *standinResult {
	res := &standinResult{Label: "bounded"}
	if !standinProps[cc.prop] {
		return res
	}
	harness := filepath.Join(cc.s.vdir, "harness", "zz_govc_standin_test.go")
	ov := fmt.Sprintf(`{"Replace":{%q:%q}}`, filepath.Join(cc.s.repo, "zz_govc_standin_test.go"), harness)
	ovFile := filepath.Join(cc.s.smt.dir, "standin-overlay.json")
	os.WriteFile(ovFile, []byte(ov), 0o644)
	ctx, cancel := context.WithTimeout(context.Background(), 15*time.Minute)
	defer cancel()
	cmd := exec.CommandContext(ctx, "go", "test", "-overlay", ovFile, "-vet=off", "-count=1", "-timeout", "600s", "-run", "^TestGovcStandin$", "-v", ".")
	cmd.Dir = cc.s.repo
	caseFile := filepath.Join(cc.s.smt.dir, "standin-case.txt")
	cmd.Env = append(os.Environ(), "GOVC_CASEFILE="+caseFile, "GOFLAGS=-mod=mod", "GOPROXY=off", "GOSUMDB=off", "GOTOOLCHAIN=local", "GOVC_STANDIN="+cc.prop, "GOVC_SEED="+strconv.Itoa(cc.seed))
	if cc.tier == "thorough" {
		cmd.Env = append(cmd.Env, "GOVC_STANDIN_DEEP=1")
	}
	var buf bytes.Buffer
	cmd.Stdout = &buf
	cmd.Stderr = &buf
	t0 := time.Now()
	err := cmd.Run()
	res.Seconds = round3(time.Since(t0).Seconds())
	res.Ran = true
	out := buf.String()
	sum := regexp.MustCompile(`STANDIN-SUMMARY (\S+) cases=(\d+) distinct=(\d+) fail=(\d+) bound=(.*)`)
	for _, line := range strings.Split(out, "\n") {
		line = strings.TrimSpace(line)
		if strings.HasPrefix(line, "STANDIN-CASE-FAIL ") {
			rest := strings.TrimPrefix(line, "STANDIN-CASE-FAIL "+cc.prop+" ")
			name := rest
			if i := strings.Index(rest, " :: "); i >= 0 {
				name = rest[:i]
			}
			if f := cc.standinFinding(name); f != nil {
				res.Known = append(res.Known, rest)
				continue
			}
			res.Fails = append(res.Fails, rest)
		}
		if mm := sum.FindStringSubmatch(line); mm != nil {
			res.Cases, _ = strconv.Atoi(mm[2])
			res.Distinct, _ = strconv.Atoi(mm[3])
			res.Bound = mm[5]
		}
	}
	if res.Cases == 0 && err != nil {
		if i := strings.Index(out, "fatal error:"); i >= 0 && !strings.Contains(out, "[build failed]") {
			// the code under test took the whole process down (stack overflow, out of memory, concurrent map
			// access): not recoverable by any caller, a failing case of its own
			head := out[i:]
			if len(head) > 1200 {
				head = head[:1200]
			}
			last := ""
			if b, e := os.ReadFile(caseFile); e == nil {
				last = strings.TrimSpace(string(b))
			}
			res.Fails = append(res.Fails, fmt.Sprintf("process-crash/%s :: the process died while this case ran: %s", last, strings.ReplaceAll(firstLine(head), "\n", " ")))
			res.Crash = head
			res.Cases = 1
		} else {
			// the harness itself did not run (build failure): report, never a pass
			tail := out
			if len(tail) > 1500 {
				tail = tail[len(tail)-1500:]
			}
			res.Error = "stand-in did not complete: " + err.Error() + "\n" + tail
		}
	}
	return res
}

func (cc *checkCtx) standinFinding(caseName string) *KnownFinding {
	for _, f := range cc.findings {
		if f.Property != cc.prop || f.Status != "open" || !strings.HasPrefix(f.Obligation, "standin:") {
			continue
		}
		pat := strings.TrimPrefix(f.Obligation, "standin:")
		if ok, _ := filepath.Match(pat, caseName); ok {
			return f
		}
		if strings.HasSuffix(pat, "*") && strings.HasPrefix(caseName, strings.TrimSuffix(pat, "*")) {
			return f
		}
	}
	return nil
}
