package main

// Symbolic values and machine state.

import (
	"fmt"
	"go/types"
	"sort"
	"strings"

	"golang.org/x/tools/go/ssa"
)

// Value is one of: Term, *SliceV, *PtrV, *StructV, Tuple, *FuncV.
type Value interface{}

type Tuple []Value

// Obj is a memory object (allocation). Array-like objects hold one SMT array
// term; scalar objects hold one Value; struct objects hold one cell per field.
type Obj struct {
	ID    int
	Name  string
	Typ   types.Type // type of the object's content (array elem type for arrays/slices' backing)
	Array bool
	Elem  Sort // element sort for array objects
	Sym   bool // created as an unconstrained symbolic object (parameter, callee result), not by an allocation of the verified code
}

type SliceV struct {
	Obj           *Obj
	Off, Len, Cap Term // BV64
	Nil           Term // Bool: slice is nil (len 0)
}

type PtrV struct {
	Obj  *Obj
	Idx  *Term // element index for array objects
	Path []int // field path for struct objects
	Typ  types.Type
}

type StructV struct {
	Typ types.Type
	F   []Value
}

type FuncV struct {
	Fn   *ssa.Function
	Bind []Value
	Name string // for builtins/externals
}

type cellKey struct {
	obj  *Obj
	path string
}

func pathKey(p []int) string {
	if len(p) == 0 {
		return ""
	}
	var b strings.Builder
	for _, i := range p {
		fmt.Fprintf(&b, ".%d", i)
	}
	return b.String()
}

type State struct {
	mem      map[cellKey]Value
	pc       []Term
	ghost    map[string]Value
	abstract bool     // path passed through an abstracted construct
	assumed  []string // names of trusted externals used on this path
	dead     bool
	written  map[cellKey]bool
	havocked map[cellKey]bool // cells (or whole objects, path "") whose initial value must not be re-materialised
}

func (s *State) clone() *State {
	n := &State{mem: make(map[cellKey]Value, len(s.mem)), ghost: make(map[string]Value, len(s.ghost)), abstract: s.abstract}
	for k, v := range s.mem {
		n.mem[k] = v
	}
	for k, v := range s.ghost {
		n.ghost[k] = v
	}
	n.pc = append([]Term(nil), s.pc...)
	n.assumed = append([]string(nil), s.assumed...)
	if s.havocked != nil {
		n.havocked = make(map[cellKey]bool, len(s.havocked))
		for k := range s.havocked {
			n.havocked[k] = true
		}
	}
	if s.written != nil {
		n.written = make(map[cellKey]bool, len(s.written))
		for k := range s.written {
			n.written[k] = true
		}
	}
	return n
}

func (s *State) assume(t Term) {
	if t.IsConst() {
		if t.C.Sign() == 0 {
			s.dead = true
		}
		return
	}
	s.pc = append(s.pc, t)
}

func (s *State) trust(name string) {
	for _, a := range s.assumed {
		if a == name {
			return
		}
	}
	s.assumed = append(s.assumed, name)
}

type Frame struct {
	fn     *ssa.Function
	regs   map[ssa.Value]Value
	block  *ssa.BasicBlock
	prev   *ssa.BasicBlock
	ip     int
	parent *Frame
	call   ssa.CallInstruction // call in parent that created this frame
	active map[*ssa.BasicBlock]*loopCtx
	depth  int
	defers []deferred
	// for the root frame: snapshot of the state at entry (for old())
}

type loopCtx struct {
	variant []Term
}

func (f *Frame) clone() *Frame {
	if f == nil {
		return nil
	}
	n := *f
	n.regs = make(map[ssa.Value]Value, len(f.regs))
	for k, v := range f.regs {
		n.regs[k] = v
	}
	n.active = make(map[*ssa.BasicBlock]*loopCtx, len(f.active))
	for k, v := range f.active {
		n.active[k] = v
	}
	n.defers = append([]deferred(nil), f.defers...)
	n.parent = f.parent.clone()
	return &n
}

type Config struct {
	st  *State
	top *Frame
}

func (c *Config) clone() *Config { return &Config{st: c.st.clone(), top: c.top.clone()} }

// Symbol table of declared SMT constants/functions created during a run.
type SymTab struct {
	decls map[string]string // name -> declaration text
	order []string
	n     int
}

func newSymTab() *SymTab { return &SymTab{decls: map[string]string{}} }

func (t *SymTab) fresh(base string, s Sort) Term {
	t.n++
	base = symBase(sanitize(base))
	name := fmt.Sprintf("%s!%d", base, t.n)
	t.decls[name] = fmt.Sprintf("(declare-const %s %s)", name, s)
	t.order = append(t.order, name)
	return Sym(name, s)
}

func (t *SymTab) named(name string, s Sort) Term {
	name = symBase(sanitize(name))
	if _, ok := t.decls[name]; !ok {
		t.decls[name] = fmt.Sprintf("(declare-const %s %s)", name, s)
		t.order = append(t.order, name)
	}
	return Sym(name, s)
}

func (t *SymTab) declareFun(name string, args []Sort, ret Sort) {
	if _, ok := t.decls[name]; ok {
		return
	}
	var as []string
	for _, a := range args {
		as = append(as, string(a))
	}
	t.decls[name] = fmt.Sprintf("(declare-fun %s (%s) %s)", name, strings.Join(as, " "), ret)
	t.order = append(t.order, name)
}

// symBase: SMT-LIB reserves symbols that start with '@' or '.'
func symBase(s string) string {
	if strings.HasPrefix(s, "@") || strings.HasPrefix(s, ".") {
		return "g" + s
	}
	return s
}

func sanitize(s string) string {
	var b strings.Builder
	for _, r := range s {
		switch {
		case r >= 'a' && r <= 'z', r >= 'A' && r <= 'Z', r >= '0' && r <= '9', r == '_', r == '.', r == '!', r == '$', r == '@':
			b.WriteRune(r)
		default:
			b.WriteByte('_')
		}
	}
	if b.Len() == 0 {
		return "_"
	}
	return b.String()
}

// declsFor returns the declarations of every symbol that occurs in text.
func (t *SymTab) declsFor(text string) []string {
	toks := smtSymbols(text)
	var out []string
	for _, name := range t.order {
		if toks[name] {
			out = append(out, t.decls[name])
		}
	}
	return out
}

func smtSymbols(text string) map[string]bool {
	m := map[string]bool{}
	start := -1
	for i := 0; i <= len(text); i++ {
		var c byte = ' '
		if i < len(text) {
			c = text[i]
		}
		if c == ' ' || c == '(' || c == ')' || c == '\n' || c == '\t' {
			if start >= 0 {
				m[text[start:i]] = true
				start = -1
			}
		} else if start < 0 {
			start = i
		}
	}
	return m
}

func sortedKeys(m map[string]bool) []string {
	var ks []string
	for k := range m {
		ks = append(ks, k)
	}
	sort.Strings(ks)
	return ks
}

func (s *State) markHavocked(obj *Obj, path string) {
	if s.havocked == nil {
		s.havocked = map[cellKey]bool{}
	}
	s.havocked[cellKey{obj, path}] = true
}

// isHavocked: the cell, an enclosing path, or the whole object was havocked in this state.
func (s *State) isHavocked(obj *Obj, path string) bool {
	if s.havocked == nil {
		return false
	}
	if s.havocked[cellKey{obj, ""}] {
		return true
	}
	for p := path; p != ""; {
		if s.havocked[cellKey{obj, p}] {
			return true
		}
		i := strings.LastIndex(p, ".")
		if i < 0 {
			break
		}
		p = p[:i]
	}
	return false
}
