package main

// Loop handling: invariants are asserted on entry and on every back edge;
// at the head the loop-carried registers and the memory/ghost state the loop
// may modify are havocked and the invariant assumed.

import (
	"fmt"
	"go/ast"
	"go/types"
	"strings"

	"golang.org/x/tools/go/ssa"
)

func (m *Machine) loopContract(fn *ssa.Function, lp *Loop) *LoopContract {
	if m.cur == nil || m.cur.fc == nil || fn != m.cur.fn {
		// loops of inlined callees: look up that callee's own contract block (loop clauses only)
		if fc := m.contracts.Funcs[funcKey(fn)]; fc != nil {
			return fc.Loops[lp.ordinal]
		}
		return nil
	}
	return m.cur.fc.Loops[lp.ordinal]
}

func phisOf(b *ssa.BasicBlock) []*ssa.Phi {
	var ps []*ssa.Phi
	for _, ins := range b.Instrs {
		if p, ok := ins.(*ssa.Phi); ok {
			ps = append(ps, p)
		} else if _, ok := ins.(*ssa.DebugRef); ok {
			continue
		} else {
			break
		}
	}
	return ps
}

func phiEdgeValue(p *ssa.Phi, from *ssa.BasicBlock) ssa.Value {
	for i, pred := range p.Block().Preds {
		if pred == from {
			return p.Edges[i]
		}
	}
	return nil
}

func (m *Machine) loopEnter(c *Config, lp *Loop, from *ssa.BasicBlock) *Config {
	fr := c.top
	fr.prev = from
	fr.block = lp.head
	phis := phisOf(lp.head)
	// 1. phi values along the entry edge
	vals := make([]Value, len(phis))
	for i, p := range phis {
		vals[i] = m.operand(c, phiEdgeValue(p, from))
	}
	for i, p := range phis {
		fr.regs[p] = vals[i]
	}
	lc := m.loopContract(fr.fn, lp)
	env := m.loopEnv(c, lp)
	if lc != nil {
		for _, inv := range lc.Invariants {
			g, err := m.evalBool(env, inv.Expr)
			if err != nil {
				m.staleClause(fr.fn, inv, err)
				continue
			}
			m.emit(c, "inv-entry", fmt.Sprintf("loop%d:%s", lp.ordinal, inv.Label), inv.Props, g, "", inv.Src)
		}
	}
	// 2. havoc
	m.havocLoop(c, lp, phis, vals)
	// implicit invariant of range loops over slices: the hidden index is >= -1 (checked on back edges)
	for _, p := range phis {
		if p.Comment == "rangeindex" {
			if t, ok := fr.regs[p].(Term); ok && t.Sort == SBV64 {
				c.st.assume(And(BVSge(t, BVLitI(-1, 64)), BVSle(t, BVLitI(1<<41, 64))))
			}
		}
	}
	// 3. assume invariant in the havocked state
	env = m.loopEnv(c, lp)
	ctx := &loopCtx{}
	if lc != nil {
		for _, inv := range lc.Invariants {
			g, err := m.evalBool(env, inv.Expr)
			if err != nil {
				continue
			}
			c.st.assume(g)
		}
		for _, d := range lc.Decreases {
			cv, err := m.eval(env, d.Expr)
			if err != nil {
				m.staleClause(fr.fn, d, err)
				continue
			}
			t, ok := cv.V.(Term)
			if !ok || !t.Sort.IsBV() {
				m.staleClause(fr.fn, d, fmt.Errorf("variant is not an integer"))
				continue
			}
			ctx.variant = append(ctx.variant, t)
		}
	}
	fr.active[lp.head] = ctx
	// skip the phi instructions (already bound)
	fr.ip = 0
	for fr.ip < len(lp.head.Instrs) {
		ins := lp.head.Instrs[fr.ip]
		if _, ok := ins.(*ssa.Phi); ok {
			fr.ip++
			continue
		}
		break
	}
	return c
}

func (m *Machine) loopBack(c *Config, lp *Loop, from *ssa.BasicBlock) {
	fr := c.top
	phis := phisOf(lp.head)
	vals := make([]Value, len(phis))
	for i, p := range phis {
		vals[i] = m.operand(c, phiEdgeValue(p, from))
	}
	for i, p := range phis {
		fr.regs[p] = vals[i]
	}
	for _, p := range phis {
		if p.Comment == "rangeindex" {
			if t, ok := fr.regs[p].(Term); ok && t.Sort == SBV64 {
				m.emit(c, "inv-preserve", fmt.Sprintf("loop%d:rangeindex", lp.ordinal), []string{"C14"}, And(BVSge(t, BVLitI(-1, 64)), BVSle(t, BVLitI(1<<41, 64))), "", "implicit: range index >= -1")
			}
		}
	}
	lc := m.loopContract(fr.fn, lp)
	if lc == nil {
		return
	}
	env := m.loopEnv(c, lp)
	for _, inv := range lc.Invariants {
		g, err := m.evalBool(env, inv.Expr)
		if err != nil {
			continue
		}
		m.emit(c, "inv-preserve", fmt.Sprintf("loop%d:%s", lp.ordinal, inv.Label), inv.Props, g, "", inv.Src)
	}
	ctx := fr.active[lp.head]
	for i, d := range lc.Decreases {
		if i >= len(ctx.variant) {
			break
		}
		cv, err := m.eval(env, d.Expr)
		if err != nil {
			continue
		}
		nt := cv.V.(Term)
		old := ctx.variant[i]
		zero := BVLitI(0, old.Sort.Width())
		m.emit(c, "variant", fmt.Sprintf("loop%d:%s", lp.ordinal, d.Label), d.Props, And(BVSge(old, zero), BVSlt(nt, old)), "", d.Src)
	}
}

func (m *Machine) staleClause(fn *ssa.Function, cl *Clause, err error) {
	msg := fmt.Sprintf("STALE-CONTRACT %s loop %d %s [%s]: %v", funcKey(fn), cl.Loop, cl.Kind, cl.Label, err)
	if m.cur != nil {
		for _, s := range m.cur.stale {
			if s == msg {
				return
			}
		}
		m.cur.stale = append(m.cur.stale, msg)
	}
}

// ---------- name resolution for loop clauses ----------

func (m *Machine) loopEnv(c *Config, lp *Loop) *Env {
	fr := c.top
	env := m.baseEnv(c)
	// local variable names visible at the loop head
	for name, vals := range m.debugNames(fr.fn) {
		var best ssa.Value
		for _, v := range vals {
			ins, ok := v.(ssa.Instruction)
			if !ok {
				continue
			}
			b := ins.Block()
			if b == lp.head {
				if _, isPhi := v.(*ssa.Phi); isPhi {
					best = v
					break
				}
				continue
			}
			if b.Dominates(lp.head) {
				if best == nil {
					best = v
				} else if bi, ok := best.(ssa.Instruction); ok && bi.Block().Dominates(b) {
					best = v
				}
			}
		}
		if best != nil {
			if val, ok := fr.regs[best]; ok {
				env.vars[name] = CV{V: val, Signed: isSigned(best.Type()), Typ: best.Type()}
			}
		}
	}
	for _, p := range phisOf(lp.head) {
		if p.Comment != "" {
			if val, ok := fr.regs[p]; ok {
				env.vars[p.Comment] = CV{V: val, Signed: isSigned(p.Type()), Typ: p.Type()}
			}
		}
	}
	return env
}

var debugNameCache = map[*ssa.Function]map[string][]ssa.Value{}

func (m *Machine) debugNames(fn *ssa.Function) map[string][]ssa.Value {
	if d, ok := debugNameCache[fn]; ok {
		return d
	}
	d := map[string][]ssa.Value{}
	for _, b := range fn.Blocks {
		for _, ins := range b.Instrs {
			if dr, ok := ins.(*ssa.DebugRef); ok && !dr.IsAddr {
				if id, ok := dr.Expr.(*ast.Ident); ok {
					d[id.Name] = append(d[id.Name], dr.X)
				}
			}
			if p, ok := ins.(*ssa.Phi); ok && p.Comment != "" {
				d[p.Comment] = append(d[p.Comment], p)
			}
		}
	}
	debugNameCache[fn] = d
	return d
}

// ---------- havoc ----------

type cellHavoc struct {
	arg        ssa.Value // the caller's argument bound to the callee parameter the location is relative to
	fields     []string  // field names below it
	mapContent bool      // mapof(...): the contents of the map held there, not the cell
}

type modset struct {
	cells    []cellHavoc
	roots    map[ssa.Value]map[string]bool // root value -> field paths ("" = whole object)
	ghosts   map[string]bool
	allGhost bool
	allMem   bool
	allMaps  bool
}

func (m *Machine) rootOf(v ssa.Value, path []int) (ssa.Value, []int) {
	for {
		switch x := v.(type) {
		case *ssa.IndexAddr:
			v = x.X
			path = nil // element of array object: whole array
		case *ssa.FieldAddr:
			v = x.X
			path = append([]int{x.Field}, path...)
		case *ssa.Slice:
			v = x.X
		case *ssa.ChangeType:
			v = x.X
		case *ssa.Convert:
			v = x.X
		default:
			return v, path
		}
	}
}

func (m *Machine) loopModset(fn *ssa.Function, lp *Loop) *modset {
	ms := &modset{roots: map[ssa.Value]map[string]bool{}, ghosts: map[string]bool{}}
	add := func(v ssa.Value, path []int) {
		r, p := m.rootOf(v, path)
		if ms.roots[r] == nil {
			ms.roots[r] = map[string]bool{}
		}
		ms.roots[r][pathKey(p)] = true
		// phis: all incoming roots
		if ph, ok := r.(*ssa.Phi); ok {
			for _, e := range ph.Edges {
				if e != r {
					r2, p2 := m.rootOf(e, p)
					if ms.roots[r2] == nil {
						ms.roots[r2] = map[string]bool{}
					}
					ms.roots[r2][pathKey(p2)] = true
				}
			}
		}
	}
	for b := range lp.blocks {
		for _, ins := range b.Instrs {
			switch x := ins.(type) {
			case *ssa.Store:
				add(x.Addr, nil)
			case *ssa.MapUpdate:
				add(x.Map, nil)
			case ssa.CallInstruction:
				com := x.Common()
				var fc *FuncContract
				if callee := com.StaticCallee(); callee != nil {
					fc = m.contracts.Funcs[funcKey(callee)]
				}
				if fc != nil && (fc.HasAssigns || fc.Trusted == "") {
					callee := com.StaticCallee()
					for _, a := range fc.Assigns {
						if len(a) > 0 && a[0] == '@' {
							ms.ghosts[a] = true
							continue
						}
						loc, isMap := a, false
						if strings.HasPrefix(a, "mapof(") && strings.HasSuffix(a, ")") {
							loc, isMap = a[len("mapof("):len(a)-1], true
						}
						parts := strings.Split(loc, ".")
						found := false
						for pi, p := range callee.Params {
							if p.Name() == parts[0] && pi < len(com.Args) {
								ms.cells = append(ms.cells, cellHavoc{arg: com.Args[pi], fields: parts[1:], mapContent: isMap})
								found = true
							}
						}
						if !found {
							ms.allMemForArgs(m, com, add)
						}
					}
					continue
				}
				name := ""
				if com.IsInvoke() {
					name = ifaceMethodKey(com)
				} else if callee := com.StaticCallee(); callee != nil {
					name = callee.String()
				} else if bi, ok := com.Value.(*ssa.Builtin); ok {
					name = "builtin:" + bi.Name()
				}
				if ro, ok := readonlyArgCallees[name]; ok {
					// only the listed argument positions may be written by the callee
					args := com.Args
					if com.IsInvoke() {
						args = append([]ssa.Value{com.Value}, args...)
					}
					for _, i := range ro.writes {
						if i < len(args) {
							add(args[i], nil)
						}
					}
					if ro.ghost {
						ms.allGhost = true
					}
					continue
				}
				ms.allGhost = true
				ms.allMemForArgs(m, com, add)
				// map contents: a function of this package without a frame can reach any map; an external one
				// (or delete) the maps it is handed
				if callee := com.StaticCallee(); callee != nil && callee.Pkg == m.pkg {
					if m.mayWriteMaps(callee) {
						ms.allMaps = true
					}
				} else if com.StaticCallee() == nil && !com.IsInvoke() {
					if _, isBuiltin := com.Value.(*ssa.Builtin); !isBuiltin || name == "builtin:delete" {
						ms.allMaps = true // closure / function value, or delete
					}
				} else {
					for _, a := range com.Args {
						if _, isMap := a.Type().Underlying().(*types.Map); isMap {
							ms.allMaps = true
						}
					}
				}
			}
		}
	}
	return ms
}

func (ms *modset) allMemForArgs(m *Machine, com *ssa.CallCommon, add func(ssa.Value, []int)) {
	args := com.Args
	if com.IsInvoke() {
		args = append([]ssa.Value{com.Value}, args...)
	}
	for _, a := range args {
		switch a.Type().Underlying().(type) {
		case *types.Pointer, *types.Slice:
			add(a, nil)
		}
	}
}

var ghostImmutable = map[string]bool{"@in": true}

func (m *Machine) havocLoop(c *Config, lp *Loop, phis []*ssa.Phi, entryVals []Value) {
	fr := c.top
	st := c.st
	for i, p := range phis {
		fr.regs[p] = m.havocValue(st, p.Comment, p.Type(), entryVals[i], m.phiBackValues(c, p, lp), p)
	}
	ms := m.loopModset(fr.fn, lp)
	// maps written directly in the loop body: the contents of every map the written value can be are arbitrary at
	// the head; a map value that is not yet known at the head (loaded inside the body) makes all map contents arbitrary
	for b := range lp.blocks {
		for _, ins := range b.Instrs {
			mu, ok := ins.(*ssa.MapUpdate)
			if !ok {
				continue
			}
			var cands []ssa.Value
			seen := map[ssa.Value]bool{}
			var walk func(v ssa.Value)
			walk = func(v ssa.Value) {
				if seen[v] {
					return
				}
				seen[v] = true
				switch x := v.(type) {
				case *ssa.Phi:
					for _, e := range x.Edges {
						walk(e)
					}
				case *ssa.ChangeType:
					walk(x.X)
				default:
					cands = append(cands, v)
				}
			}
			walk(mu.Map)
			for _, cv := range cands {
				known := false
				if val, ok := fr.regs[cv]; ok && !lp.blocks[instrBlock(cv)] {
					if t, ok := val.(Term); ok && t.Sort == "MapRef" {
						m.havocMapContent(st, t)
						known = true
					}
				}
				if !known {
					m.havocAllMaps(st)
				}
			}
		}
	}
	if ms.allMaps {
		m.havocAllMaps(st)
	}
	for root, paths := range ms.roots {
		val, ok := fr.regs[root]
		if !ok {
			if g, isG := root.(*ssa.Global); isG {
				val = m.globalPtr(g)
			} else {
				continue
			}
		}
		var obj *Obj
		switch v := val.(type) {
		case *PtrV:
			obj = v.Obj
		case *SliceV:
			obj = v.Obj
		}
		if obj == nil {
			continue
		}
		for p := range paths {
			if obj.Array {
				st.mem[cellKey{obj, ""}] = m.syms.fresh(obj.Name+".arr", ArraySort(SBV64, obj.Elem))
				continue
			}
			// delete matching cells (prefix match) and mark them: they are re-materialised fresh, not with their entry value
			for k := range st.mem {
				if k.obj == obj && !strings.HasPrefix(k.path, "#") && (p == "" || k.path == p || (len(k.path) > len(p) && k.path[:len(p)] == p)) {
					delete(st.mem, k)
				}
			}
			st.markHavocked(obj, p)
			// mark as havocked: a fresh value must not fall back to the global initial value
			if _, isGlobal := m.globalMem[cellKey{obj, p}]; isGlobal {
				st.mem[cellKey{obj, p}] = m.freshLike(m.globalMem[cellKey{obj, p}], obj.Name)
			}
		}
	}
	for _, ch := range ms.cells {
		m.havocCellPath(c, ch)
	}
	for name, v := range st.ghost {
		if ghostImmutable[name] || strings.HasPrefix(name, "@map:") || strings.HasPrefix(name, "@mapfresh:") || name == "@maphavocall" || strings.HasPrefix(name, "@ch:") {
			continue
		}
		if ms.allGhost || ms.ghosts[name] {
			if t, ok := v.(Term); ok {
				st.ghost[name] = m.syms.fresh(name, t.Sort)
				m.ghostInvariant(st, name)
			}
		}
	}
	// ghosts not yet materialised are symbolic anyway
}

func (m *Machine) freshLike(v Value, name string) Value {
	switch x := v.(type) {
	case Term:
		return m.syms.fresh(name, x.Sort)
	case *SliceV:
		return &SliceV{Obj: m.newObj(name, x.Obj.Typ, true, x.Obj.Elem), Off: BVLitI(0, 64), Len: m.syms.fresh(name+".len", SBV64), Cap: m.syms.fresh(name+".cap", SBV64), Nil: TFalse}
	}
	return v
}

func (m *Machine) phiBackValues(c *Config, p *ssa.Phi, lp *Loop) []ssa.Value {
	var vs []ssa.Value
	for i, pred := range p.Block().Preds {
		if lp.blocks[pred] {
			vs = append(vs, p.Edges[i])
		}
	}
	return vs
}

func (m *Machine) havocValue(st *State, name string, typ types.Type, entry Value, back []ssa.Value, head *ssa.Phi) Value {
	if name == "" {
		name = "phi"
	}
	switch e := entry.(type) {
	case Term:
		return m.syms.fresh(name, e.Sort)
	case *SliceV:
		// a slice that the loop only re-slices (s = s[:n]) keeps its backing object and capacity; one that is
		// assigned from anything else in the body (append, make, another slice) is a different slice after an
		// iteration: new backing object, new length and capacity
		reslicedOnly := true
		seen := map[ssa.Value]bool{}
		var leaf func(v ssa.Value)
		leaf = func(v ssa.Value) {
			if seen[v] {
				return
			}
			seen[v] = true
			switch x := v.(type) {
			case *ssa.Slice:
				leaf(x.X)
			case *ssa.Phi:
				if x == head {
					return
				}
				for _, e := range x.Edges {
					leaf(e)
				}
			default:
				reslicedOnly = false
			}
		}
		for _, b := range back {
			leaf(b)
		}
		if reslicedOnly && len(back) > 0 {
			ln := m.syms.fresh(name+".len", SBV64)
			st.assume(BVUle(ln, e.Cap))
			return &SliceV{Obj: e.Obj, Off: e.Off, Len: ln, Cap: e.Cap, Nil: m.syms.fresh(name+".nil", SBool)}
		}
		ln, cp := m.syms.fresh(name+".len", SBV64), m.syms.fresh(name+".cap", SBV64)
		st.assume(And(BVUle(ln, cp), BVUle(cp, BVLitI(1<<40, 64))))
		nilF := m.syms.fresh(name+".nil", SBool)
		st.assume(Implies(nilF, Eq(ln, BVLitI(0, 64))))
		return &SliceV{Obj: m.newObj(name, e.Obj.Typ, true, e.Obj.Elem), Off: BVLitI(0, 64), Len: ln, Cap: cp, Nil: nilF}
	case *PtrV:
		return e
	case *FuncV:
		return e
	}
	m.unsup("havoc of loop-carried %T", entry)
	return nil
}

type roCallee struct {
	writes []int // argument positions (receiver first) the callee may write through
	ghost  bool  // touches ghost state (input position, output stream)
}

// readonlyArgCallees: externals known not to write through (all of) their arguments.
var readonlyArgCallees = map[string]roCallee{
	"(*bytes.Buffer).Write":     {writes: []int{0}},
	"(*bytes.Buffer).WriteByte": {writes: []int{0}},
	"(*bytes.Buffer).Bytes":     {},
	"io.Writer.Write":           {ghost: true},
	"io.ReadFull":               {writes: []int{1}, ghost: true},
	"builtin:len":               {},
	"builtin:cap":               {},
	"builtin:copy":              {writes: []int{0}},
	"builtin:append":            {},
	"strings.Compare":           {},
	"strings.Contains":          {},
	"error.Error":               {},
}

// havocCellPath havocs one location a contracted callee may assign, resolved against the caller's argument.
func (m *Machine) havocCellPath(c *Config, ch cellHavoc) {
	st := c.st
	val, ok := c.top.regs[ch.arg]
	if !ok {
		return
	}
	p, ok := val.(*PtrV)
	if !ok || p.Obj == nil {
		if sl, ok := val.(*SliceV); ok && len(ch.fields) == 0 && !ch.mapContent {
			st.mem[cellKey{sl.Obj, ""}] = m.syms.fresh(sl.Obj.Name+".arr", ArraySort(SBV64, sl.Obj.Elem))
		}
		if t, ok := val.(Term); ok && t.Sort == "MapRef" && ch.mapContent && len(ch.fields) == 0 {
			m.havocMapContent(st, t)
		}
		return
	}
	path := append([]int{}, p.Path...)
	t := p.Obj.Typ
	for _, i := range p.Path {
		t = t.Underlying().(*types.Struct).Field(i).Type()
	}
	for _, name := range ch.fields {
		stt, ok := t.Underlying().(*types.Struct)
		if !ok {
			return
		}
		found := false
		for i := 0; i < stt.NumFields(); i++ {
			if stt.Field(i).Name() == name {
				path = append(path, i)
				t = stt.Field(i).Type()
				found = true
				break
			}
		}
		if !found {
			return
		}
	}
	if ch.mapContent {
		if ref, ok := m.load(st, &PtrV{Obj: p.Obj, Path: path}, t).(Term); ok && ref.Sort == "MapRef" {
			m.havocMapContent(st, ref)
		}
		return
	}
	pk := pathKey(path)
	for k := range st.mem {
		if k.obj == p.Obj && (k.path == pk || strings.HasPrefix(k.path, pk+".")) {
			delete(st.mem, k)
		}
	}
	st.markHavocked(p.Obj, pk)
}

// instrBlock is the block that defines v (nil for parameters, constants, globals).
func instrBlock(v ssa.Value) *ssa.BasicBlock {
	if ins, ok := v.(ssa.Instruction); ok {
		return ins.Block()
	}
	return nil
}

// havocAllMaps makes the contents of every map arbitrary: the ones already known and, through the marker, the ones
// first looked at later.
func (m *Machine) havocAllMaps(st *State) {
	var refs []string
	for k := range st.ghost {
		if strings.HasPrefix(k, "@map:") {
			refs = append(refs, strings.TrimPrefix(k, "@map:"))
		}
	}
	for _, r := range refs {
		m.havocMapContent(st, Term{S: r, Sort: "MapRef"})
	}
	st.ghost["@maphavocall"] = TTrue
}

func (m *Machine) havocMapContent(st *State, ref Term) {
	if mc, ok := st.ghost["@map:"+ref.S].(*mapContent); ok {
		n := &mapContent{ksort: mc.ksort, vsort: mc.vsort,
			has: m.syms.fresh("map.has", mc.has.Sort), get: m.syms.fresh("map.get", mc.get.Sort), size: m.syms.fresh("map.size", SBV64)}
		st.assume(And(BVSge(n.size, BVLitI(0, 64)), BVSle(n.size, BVLitI(1<<40, 64))))
		st.ghost["@map:"+ref.S] = n
		return
	}
	st.ghost["@mapfresh:"+ref.S] = TTrue
}

// mayWriteMaps: can a call of fn (a function of this package without a frame, i.e. inlined) change the contents of
// a Go map?  True when fn or anything it can reach in this package stores into a map, deletes from one, calls a
// function value, hands a map to an external function, or calls a contracted function whose frame names a map.
func (m *Machine) mayWriteMaps(fn *ssa.Function) bool {
	seen := map[*ssa.Function]bool{}
	var visit func(f *ssa.Function) bool
	visit = func(f *ssa.Function) bool {
		if f == nil || seen[f] {
			return false
		}
		seen[f] = true
		if f.Blocks == nil {
			return false
		}
		for _, b := range f.Blocks {
			for _, ins := range b.Instrs {
				switch x := ins.(type) {
				case *ssa.MapUpdate:
					return true
				case *ssa.MakeClosure:
					if cf, ok := x.Fn.(*ssa.Function); ok && visit(cf) {
						return true
					}
				case ssa.CallInstruction:
					com := x.Common()
					if bi, ok := com.Value.(*ssa.Builtin); ok {
						if bi.Name() == "delete" {
							return true
						}
						continue
					}
					callee := com.StaticCallee()
					if callee == nil {
						if !com.IsInvoke() {
							return true // function value
						}
						continue // interface method: external models, or the codec interfaces (no maps)
					}
					if callee.Pkg == m.pkg {
						if fc := m.contracts.Funcs[funcKey(callee)]; fc != nil && (fc.HasAssigns || fc.Trusted == "") {
							for _, a := range fc.Assigns {
								if strings.HasPrefix(a, "mapof(") {
									return true
								}
							}
							continue
						}
						if visit(callee) {
							return true
						}
						continue
					}
					for _, a := range com.Args {
						if _, isMap := a.Type().Underlying().(*types.Map); isMap {
							return true
						}
					}
				}
			}
		}
		return false
	}
	return visit(fn)
}
