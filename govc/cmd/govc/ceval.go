package main

// Evaluation of contract expressions to SMT terms.

import (
	"go/constant"
	"fmt"
	"go/types"
	"golang.org/x/tools/go/ssa"
	"math"
	"math/big"
	"strings"
)

type CV struct {
	V      Value
	Signed bool
	Lit    *big.Int // untyped integer literal
	Typ    types.Type
}

type Env struct {
	m          *Machine
	vars       map[string]CV
	lets       map[string]*Expr
	cur        *State
	old        *State
	bound      map[string]CV
	depth      int
	atCallSite bool
	paramNames map[string]bool
}

func (m *Machine) baseEnv(c *Config) *Env {
	env := &Env{m: m, vars: map[string]CV{}, cur: c.st, old: m.cur.old, bound: map[string]CV{}}
	if m.cur.fc != nil {
		env.lets = m.cur.fc.Lets
	}
	env.paramNames = map[string]bool{}
	for n, v := range m.cur.params {
		t := m.cur.ptypes[n]
		env.vars[n] = CV{V: v, Signed: t != nil && isSigned(t), Typ: t}
		env.paramNames[n] = true
	}
	return env
}

func (e *Env) withState(st *State) *Env {
	n := *e
	n.cur = st
	return &n
}

func (m *Machine) evalBool(env *Env, x *Expr) (t Term, err error) {
	cv, err := m.eval(env, x)
	if err != nil {
		return Term{}, err
	}
	tt, ok := cv.V.(Term)
	if !ok || tt.Sort != SBool {
		return Term{}, fmt.Errorf("expected Bool, got %v in %s", cv.V, x)
	}
	return tt, nil
}

func (m *Machine) eval(env *Env, x *Expr) (cv CV, err error) {
	defer func() {
		if r := recover(); r != nil {
			if u, ok := r.(unsupported); ok {
				err = fmt.Errorf("%s", u.msg)
				return
			}
			if s, ok := r.(string); ok && strings.Contains(s, "sort mismatch") {
				err = fmt.Errorf("%s in %s", s, x)
				return
			}
			panic(r)
		}
	}()
	return m.ev(env, x), nil
}

type evalErr struct{ msg string }

func (m *Machine) everr(format string, a ...interface{}) {
	panic(unsupported{fmt.Sprintf(format, a...)})
}

var ghostSorts = map[string]Sort{
	"@in": SBytes, "@pos": SBV64, "@out": SStrm, "@W": SBool, "@E": SBool, "@buf": SStrm, "@rd": SStrm,
	"@nwrites": SBV64, "@dyncalls": SBV64, "@rset": SBV64,
	// last reflect setter applied to a value that was not allocated in this call: which setter (1 SetInt, 2 SetUint,
	// 3 SetFloat, 4 SetBool, 5 SetString, 6 Set, 7 other), and its argument by sort
	"@chunktag": SBV8, // tag of the string / binary chunk whose header was parsed last
	"@lastsetk": SBV64, "@lastseti": SBV64, "@lastsetf": SF64, "@lastsetb": SBool, "@lastsets": SStr,
	"@refs": SBV64, "@declared": SBV64, "@tr": SStrm, "@opens": SBV64, "@clashes": SBV64, "@lastwriter": SBV64, "@startcls": SBV64, "@nvals": SBV64, "@selfregs": SBV64, "@calls": SBV64, "@dyntrue": SBV64, "@nrec": SBV64, "@lastreader": SBV64, "@dstartcls": SBV64, "@dstartrefs": SBV64, "@dstarttyps": SBV64, "@startrefs": SBV64, "@defs": SBV64, "@depth": SBV64, "@alloc": SBV64, "@nread": SBV64,
}

func (m *Machine) ghost(st *State, name string) Value {
	if v, ok := st.ghost[name]; ok {
		return v
	}
	s, ok := ghostSorts[name]
	if !ok {
		m.everr("unknown ghost %s", name)
	}
	v := m.syms.named("ghost0."+strings.TrimPrefix(name, "@"), s)
	if s == SBV64 && name != "@pos" {
		// ghost counters start in [0, 2^40]: they never overflow (A-COUNTERS)
		if len(m.facts[v.S]) == 0 {
			m.addFact(v.S, And(BVSge(v, BVLitI(0, 64)), BVSle(v, BVLitI(1<<40, 64))))
		}
	}
	st.ghost[name] = v
	// the initial value is shared with the old state (so that old(@x) denotes it)
	if m.cur != nil && m.cur.old != nil && m.cur.old != st {
		if _, ok := m.cur.old.ghost[name]; !ok {
			m.cur.old.ghost[name] = v
		}
	}
	return v
}

func (m *Machine) ev(env *Env, x *Expr) CV {
	switch x.Op {
	case "int":
		return CV{Lit: x.Lit}
	case "bool":
		return CV{V: mkBool(x.Name == "true")}
	case "str":
		return CV{V: m.strLit(x.Name)}
	case "ghost":
		return CV{V: m.ghost(env.cur, x.Name)}
	case "ident":
		if v, ok := env.bound[x.Name]; ok {
			return v
		}
		if v, ok := env.vars[x.Name]; ok {
			// captured variables of a closure are cells: their current (or old) content is meant
			if p, isPtr := v.V.(*PtrV); isPtr && m.cur != nil && m.cur.freeVars[x.Name] && p.Obj != nil {
				pt := p.Typ.Underlying().(*types.Pointer).Elem()
				return CV{V: m.load(env.cur, p, pt), Signed: isSigned(pt), Typ: pt}
			}
			return v
		}
		if le, ok := env.lets[x.Name]; ok {
			if env.depth > 20 {
				m.everr("let recursion")
			}
			n := *env
			n.depth++
			return m.ev(&n, le)
		}
		if x.Name == "nil" {
			return CV{V: Term{S: "nil", Sort: "NIL"}}
		}
		if fn, ok := m.prelude.Funcs[x.Name]; ok && len(fn.Params) == 0 {
			return CV{V: Sym(fn.Name, fn.Ret), Signed: true}
		}
		// a package-level variable of the package under verification (read-only by the package frame)
		if mem, ok := m.pkg.Members[x.Name]; ok {
			if g, ok := mem.(*ssa.Global); ok {
				pt := g.Type().(*types.Pointer).Elem()
				return CV{V: m.load(env.cur, m.globalPtr(g), pt), Signed: isSigned(pt), Typ: pt}
			}
			// a named integer constant of the package: its value in the tree under verification
			if nc, ok := mem.(*ssa.NamedConst); ok && nc.Value != nil && nc.Value.Value != nil && nc.Value.Value.Kind() == constant.Int {
				if v, exact := constant.Int64Val(nc.Value.Value); exact {
					return CV{V: BVLitI(v, 64), Signed: true}
				}
			}
		}
		m.everr("unknown identifier %s", x.Name)
	case "sel":
		// G.const (nullary spec constant) or receiver field
		if id := x.Args[0]; id.Op == "ident" {
			if _, isVar := env.vars[id.Name]; !isVar {
				if _, isB := env.bound[id.Name]; !isB {
					full := id.Name + "." + x.Name
					switch full {
					case "io.EOF":
						return CV{V: Sym("err.EOF", SErr)}
					case "io.ErrUnexpectedEOF":
						return CV{V: Sym("err.UnexpectedEOF", SErr)}
					}
					if fn, ok := m.prelude.Funcs[full]; ok && len(fn.Params) == 0 {
						return CV{V: Sym(fn.Name, fn.Ret), Signed: true}
					}
					m.everr("unknown name %s", full)
				}
			}
		}
		base := m.ev(env, x.Args[0])
		return m.selectField(env, base, x.Name)
	case "index":
		base := m.ev(env, x.Args[0])
		idx := m.asBV(m.ev(env, x.Args[1]), 64)
		switch b := base.V.(type) {
		case *SliceV:
			arr := m.loadArr(env.cur, b.Obj)
			return CV{V: Select(arr, BVAdd(b.Off, idx)), Signed: isSigned(b.Obj.Typ), Typ: b.Obj.Typ}
		case Term:
			switch b.Sort {
			case SBytes:
				return CV{V: Select(app(SArr8, "barr", b), idx)}
			case SRunes:
				return CV{V: Select(app(SArr32, "rarr", b), idx), Signed: true}
			case "StrSeq":
				return CV{V: Select(app(ArraySort(SBV64, SStr), "ssarr", b), idx)}
			case SStr:
				return CV{V: app(SBV8, "s.at", b, idx)}
			}
			if b.Sort.IsArray() {
				return CV{V: Select(b, idx)}
			}
		}
		m.everr("cannot index %v", base.V)
	case "call":
		return m.evCall(env, x)
	case "!":
		return CV{V: Not(m.asBool(m.ev(env, x.Args[0])))}
	case "neg":
		a := m.ev(env, x.Args[0])
		if a.Lit != nil {
			return CV{Lit: new(big.Int).Neg(a.Lit)}
		}
		t := a.V.(Term)
		if t.Sort.IsFP() {
			return CV{V: app(t.Sort, "fp.neg", t)}
		}
		return CV{V: BVNeg(t), Signed: a.Signed}
	case "bnot":
		a := m.ev(env, x.Args[0])
		if a.Lit != nil {
			return CV{Lit: new(big.Int).Not(a.Lit)}
		}
		return CV{V: BVNot(a.V.(Term)), Signed: a.Signed}
	case "&&":
		return CV{V: And(m.asBool(m.ev(env, x.Args[0])), m.asBool(m.ev(env, x.Args[1])))}
	case "||":
		return CV{V: Or(m.asBool(m.ev(env, x.Args[0])), m.asBool(m.ev(env, x.Args[1])))}
	case "==>":
		return CV{V: Implies(m.asBool(m.ev(env, x.Args[0])), m.asBool(m.ev(env, x.Args[1])))}
	case "<==>":
		return CV{V: Eq(m.asBool(m.ev(env, x.Args[0])), m.asBool(m.ev(env, x.Args[1])))}
	case "forall", "exists":
		s, signed := m.sortByName(x.BType)
		n := *env
		n.bound = map[string]CV{}
		for k, v := range env.bound {
			n.bound[k] = v
		}
		bv := "q_" + x.BVar
		n.bound[x.BVar] = CV{V: Sym(bv, s), Signed: signed}
		body := m.asBool(m.ev(&n, x.Args[0]))
		return CV{V: Term{S: fmt.Sprintf("(%s ((%s %s)) %s)", x.Op, bv, s, body.S), Sort: SBool}}
	default:
		if _, ok := binPrec[x.Op]; ok {
			return m.evBin(env, x)
		}
	}
	m.everr("cannot evaluate %s", x)
	return CV{}
}

func (m *Machine) sortByName(n string) (Sort, bool) {
	switch n {
	case "int", "int64":
		return SBV64, true
	case "uint", "uint64":
		return SBV64, false
	case "int32", "rune":
		return SBV32, true
	case "uint32":
		return SBV32, false
	case "int16":
		return SBV16, true
	case "uint16":
		return SBV16, false
	case "int8":
		return SBV8, true
	case "byte", "uint8":
		return SBV8, false
	case "bool":
		return SBool, false
	case "float64":
		return SF64, false
	case "float32":
		return SF32, false
	case "string":
		return SStr, false
	}
	if m.prelude.Sorts[n] {
		return Sort(n), false
	}
	m.everr("unknown sort %s", n)
	return "", false
}

func (m *Machine) asBool(c CV) Term {
	t, ok := c.V.(Term)
	if !ok || t.Sort != SBool {
		m.everr("expected Bool, got %v", c.V)
	}
	return t
}

// asBV converts a contract value to a bit-vector of width w (literals adapt,
// narrower values are extended by their signedness).
func (m *Machine) asBV(c CV, w int) Term {
	if c.Lit != nil {
		return BVLit(c.Lit, w)
	}
	t, ok := c.V.(Term)
	if !ok || !t.Sort.IsBV() {
		m.everr("expected integer, got %v", c.V)
	}
	return BVConv(t, c.Signed, w)
}

func (m *Machine) asSort(env *Env, c CV, s Sort) Term {
	if c.Lit != nil {
		switch {
		case s.IsBV():
			return BVLit(c.Lit, s.Width())
		case s == SF64:
			f, _ := new(big.Float).SetInt(c.Lit).Float64()
			return FPLitBits(math.Float64bits(f), 64)
		case s == SF32:
			f, _ := new(big.Float).SetInt(c.Lit).Float32()
			return FPLitBits(uint64(math.Float32bits(f)), 32)
		}
		m.everr("literal where %s expected", s)
	}
	switch v := c.V.(type) {
	case Term:
		if v.Sort == "NIL" {
			return m.zeroTerm(s)
		}
		if v.Sort == s {
			return v
		}
		if v.Sort.IsBV() && s.IsBV() {
			if v.Sort.Width() < s.Width() {
				return BVConv(v, c.Signed, s.Width())
			}
			m.everr("implicit narrowing of %s to %s", v.S, s)
		}
		m.everr("sort mismatch: %s has sort %s, want %s", v.S, v.Sort, s)
	case *SliceV, *StructV:
		return m.packTerm(env.cur, v, s)
	case *PtrV:
		if s == SBV64 { // an address (unsafe.Pointer)
			return m.mapKeyTerm(env.cur, v, SBV64)
		}
	}
	m.everr("cannot pass %T as %s", c.V, s)
	return Term{}
}

func (m *Machine) selectField(env *Env, base CV, name string) CV {
	switch b := base.V.(type) {
	case *PtrV:
		if b.Obj == nil {
			m.everr("field %s of nil", name)
		}
		st, ok := b.Obj.Typ.Underlying().(*types.Struct)
		if !ok {
			m.everr("field %s of non-struct", name)
		}
		t := types.Type(st)
		path := append([]int{}, b.Path...)
		for _, i := range path {
			t = t.Underlying().(*types.Struct).Field(i).Type()
		}
		stt := t.Underlying().(*types.Struct)
		for i := 0; i < stt.NumFields(); i++ {
			if stt.Field(i).Name() == name {
				ft := stt.Field(i).Type()
				v := m.load(env.cur, &PtrV{Obj: b.Obj, Path: append(path, i)}, ft)
				return CV{V: v, Signed: isSigned(ft), Typ: ft}
			}
		}
		m.everr("no field %s", name)
	case *StructV:
		stt := b.Typ.Underlying().(*types.Struct)
		for i := 0; i < stt.NumFields(); i++ {
			if stt.Field(i).Name() == name {
				return CV{V: b.F[i], Signed: isSigned(stt.Field(i).Type()), Typ: stt.Field(i).Type()}
			}
		}
	case Term:
		if b.Sort == "ClassDefV" {
			switch name {
			case "FullClassName":
				return CV{V: app(SStr, "cd.name", b)}
			case "FieldName":
				return CV{V: app("StrSeq", "cd.fields", b)}
			}
		}
		// datatype selector by convention <sort-lowercase>.<field>
		for _, cand := range []string{strings.ToLower(string(b.Sort)) + "." + name, name} {
			if fn, ok := m.prelude.Funcs[cand]; ok && len(fn.Params) == 1 && fn.Params[0] == b.Sort {
				return CV{V: app(fn.Ret, fn.Name, b), Signed: true}
			}
		}
		for fname, fn := range m.prelude.Funcs {
			if len(fn.Params) == 1 && fn.Params[0] == b.Sort && strings.HasSuffix(fname, "."+name) && !strings.HasPrefix(fname, "G.") && !strings.HasPrefix(fname, "T.") {
				return CV{V: app(fn.Ret, fn.Name, b), Signed: true}
			}
		}
	}
	m.everr("cannot select %s", name)
	return CV{}
}

func (m *Machine) evBin(env *Env, x *Expr) CV {
	a := m.ev(env, x.Args[0])
	b := m.ev(env, x.Args[1])
	op := x.Op
	// both literals: fold at arbitrary precision
	if a.Lit != nil && b.Lit != nil {
		r := new(big.Int)
		switch op {
		case "+":
			return CV{Lit: r.Add(a.Lit, b.Lit)}
		case "-":
			return CV{Lit: r.Sub(a.Lit, b.Lit)}
		case "*":
			return CV{Lit: r.Mul(a.Lit, b.Lit)}
		case "<<":
			return CV{Lit: r.Lsh(a.Lit, uint(b.Lit.Int64()))}
		case ">>":
			return CV{Lit: r.Rsh(a.Lit, uint(b.Lit.Int64()))}
		case "/":
			return CV{Lit: r.Quo(a.Lit, b.Lit)}
		case "%":
			return CV{Lit: r.Rem(a.Lit, b.Lit)}
		case "&":
			return CV{Lit: r.And(a.Lit, b.Lit)}
		case "|":
			return CV{Lit: r.Or(a.Lit, b.Lit)}
		case "==":
			return CV{V: mkBool(a.Lit.Cmp(b.Lit) == 0)}
		case "!=":
			return CV{V: mkBool(a.Lit.Cmp(b.Lit) != 0)}
		case "<":
			return CV{V: mkBool(a.Lit.Cmp(b.Lit) < 0)}
		case "<=":
			return CV{V: mkBool(a.Lit.Cmp(b.Lit) <= 0)}
		case ">":
			return CV{V: mkBool(a.Lit.Cmp(b.Lit) > 0)}
		case ">=":
			return CV{V: mkBool(a.Lit.Cmp(b.Lit) >= 0)}
		}
	}
	// structural comparisons (slices against nil etc.)
	if op == "==" || op == "!=" {
		if r, ok := m.structEq(env, a, b); ok {
			if op == "!=" {
				return CV{V: Not(r)}
			}
			return CV{V: r}
		}
	}
	// determine common sort
	var s Sort
	at, aok := a.V.(Term)
	bt, bok := b.V.(Term)
	switch {
	case a.Lit != nil && bok:
		s = bt.Sort
	case b.Lit != nil && aok:
		s = at.Sort
	case aok && bok:
		s = at.Sort
		if at.Sort == "NIL" {
			s = bt.Sort
		}
		if at.Sort.IsBV() && bt.Sort.IsBV() && bt.Sort.Width() > at.Sort.Width() && op != "<<" && op != ">>" {
			s = bt.Sort
		}
	default:
		m.everr("operands of %s: %v, %v", op, a.V, b.V)
	}
	signed := a.Signed || b.Signed
	if a.Lit != nil {
		signed = b.Signed
	}
	if b.Lit != nil {
		signed = a.Signed
	}
	if op == "<<" || op == ">>" {
		l := m.asSort(env, a, s)
		var cnt Term
		if b.Lit != nil {
			cnt = BVLit(b.Lit, s.Width())
		} else {
			cnt = BVConv(bt, false, s.Width())
		}
		if op == "<<" {
			return CV{V: BVShl(l, cnt), Signed: a.Signed}
		}
		if a.Signed {
			return CV{V: BVAshr(l, cnt), Signed: true}
		}
		return CV{V: BVLshr(l, cnt)}
	}
	l := m.asSort(env, a, s)
	r := m.asSort(env, b, s)
	switch {
	case s.IsBV():
		switch op {
		case "+":
			return CV{V: BVAdd(l, r), Signed: signed}
		case "-":
			return CV{V: BVSub(l, r), Signed: signed}
		case "*":
			return CV{V: BVMul(l, r), Signed: signed}
		case "/", "%":
			if q, rm, ok := m.divConst(env.cur, l, r, signed); ok {
				if op == "/" {
					return CV{V: q, Signed: signed}
				}
				return CV{V: rm, Signed: signed}
			}
			if op == "/" {
				if signed {
					return CV{V: BVSDiv(l, r), Signed: true}
				}
				return CV{V: BVUDiv(l, r)}
			}
			if signed {
				return CV{V: BVSRem(l, r), Signed: true}
			}
			return CV{V: BVURem(l, r)}
		case "&":
			return CV{V: BVAnd(l, r), Signed: signed}
		case "|":
			return CV{V: BVOr(l, r), Signed: signed}
		case "^":
			return CV{V: BVXor(l, r), Signed: signed}
		case "==":
			return CV{V: Eq(l, r)}
		case "!=":
			return CV{V: Not(Eq(l, r))}
		case "<":
			if signed {
				return CV{V: BVSlt(l, r)}
			}
			return CV{V: BVUlt(l, r)}
		case "<=":
			if signed {
				return CV{V: BVSle(l, r)}
			}
			return CV{V: BVUle(l, r)}
		case ">":
			if signed {
				return CV{V: BVSgt(l, r)}
			}
			return CV{V: BVUgt(l, r)}
		case ">=":
			if signed {
				return CV{V: BVSge(l, r)}
			}
			return CV{V: BVUge(l, r)}
		}
	case s.IsFP():
		f := map[string]string{"==": "fp.eq", "<": "fp.lt", "<=": "fp.leq", ">": "fp.gt", ">=": "fp.geq"}
		if o, ok := f[op]; ok {
			return CV{V: app(SBool, o, l, r)}
		}
		if op == "!=" {
			return CV{V: Not(app(SBool, "fp.eq", l, r))}
		}
		g := map[string]string{"+": "fp.add", "-": "fp.sub", "*": "fp.mul", "/": "fp.div"}
		if o, ok := g[op]; ok {
			return CV{V: Term{S: fmt.Sprintf("(%s RNE %s %s)", o, l.S, r.S), Sort: s}}
		}
	default:
		switch op {
		case "==":
			return CV{V: Eq(l, r)}
		case "!=":
			return CV{V: Not(Eq(l, r))}
		}
	}
	m.everr("operator %s on %s", op, s)
	return CV{}
}

func (m *Machine) structEq(env *Env, a, b CV) (Term, bool) {
	isNilLit := func(c CV) bool {
		t, ok := c.V.(Term)
		return ok && t.Sort == "NIL"
	}
	if sl, ok := a.V.(*SliceV); ok && isNilLit(b) {
		return sl.Nil, true
	}
	if sl, ok := b.V.(*SliceV); ok && isNilLit(a) {
		return sl.Nil, true
	}
	if p, ok := a.V.(*PtrV); ok && isNilLit(b) {
		return mkBool(p.Obj == nil), true
	}
	if sa, ok := a.V.(*SliceV); ok {
		if sb, ok := b.V.(*SliceV); ok {
			// extensional equality via packing
			s := seqSortFor(sa.Obj.Elem)
			return Eq(m.packTerm(env.cur, sa, s), m.packTerm(env.cur, sb, s)), true
		}
	}
	return Term{}, false
}

func seqSortFor(el Sort) Sort {
	switch el {
	case SBV8:
		return SBytes
	case SBV32:
		return SRunes
	case SStr:
		return "StrSeq"
	}
	return SObj
}

func (m *Machine) evCall(env *Env, x *Expr) CV {
	callee := x.Args[0]
	args := x.Args[1:]
	name := ""
	switch callee.Op {
	case "ident":
		name = callee.Name
	case "sel":
		if callee.Args[0].Op == "ident" {
			name = callee.Args[0].Name + "." + callee.Name
		}
	}
	if name == "" {
		m.everr("unsupported call %s", x)
	}
	need := func(n int) {
		if len(args) != n {
			m.everr("%s expects %d arguments", name, n)
		}
	}
	switch name {
	case "entry":
		// the value a parameter had on entry (parameters are variables in Go)
		need(1)
		if args[0].Op != "ident" {
			m.everr("entry(x): x must be a parameter")
		}
		if v, ok := m.cur.params[args[0].Name]; ok && !env.atCallSite {
			t := m.cur.ptypes[args[0].Name]
			return CV{V: v, Signed: t != nil && isSigned(t), Typ: t}
		}
		return m.ev(env, args[0])
	case "now":
		// the value of a (re-assigned) parameter or local at the return point
		need(1)
		if args[0].Op != "ident" {
			m.everr("now(x): x must be a variable")
		}
		if v, ok := env.vars["now."+args[0].Name]; ok {
			return v
		}
		if v, ok := env.vars[args[0].Name]; ok {
			return v
		}
		m.everr("unknown identifier %s", args[0].Name)
	case "old":
		need(1)
		if env.old == nil {
			m.everr("old() outside a postcondition")
		}
		return m.ev(env.withState(env.old), args[0])
	case "len", "cap":
		need(1)
		a := m.ev(env, args[0])
		switch v := a.V.(type) {
		case *SliceV:
			if name == "cap" {
				return CV{V: v.Cap, Signed: true}
			}
			return CV{V: v.Len, Signed: true}
		case Term:
			switch v.Sort {
			case SBytes:
				return CV{V: app(SBV64, "blen", v), Signed: true}
			case SRunes:
				return CV{V: app(SBV64, "rlen", v), Signed: true}
			case "StrSeq":
				return CV{V: app(SBV64, "sslen", v), Signed: true}
			case SStr:
				return CV{V: app(SBV64, "s.len", v), Signed: true}
			}
		}
		m.everr("len of %v", a.V)
	case "ite":
		need(3)
		c := m.asBool(m.ev(env, args[0]))
		a := m.ev(env, args[1])
		b := m.ev(env, args[2])
		var s Sort
		if t, ok := a.V.(Term); ok && a.Lit == nil {
			s = t.Sort
		} else if t, ok := b.V.(Term); ok && b.Lit == nil {
			s = t.Sort
		} else {
			s = SBV64
		}
		return CV{V: Ite(c, m.asSort(env, a, s), m.asSort(env, b, s)), Signed: a.Signed || b.Signed}
	case "sext", "zext", "trunc":
		need(2)
		a := m.ev(env, args[0])
		w := m.ev(env, args[1])
		if w.Lit == nil {
			m.everr("%s width must be a literal", name)
		}
		t := a.V.(Term)
		switch name {
		case "sext":
			return CV{V: SignExt(t, int(w.Lit.Int64())), Signed: true}
		case "zext":
			return CV{V: ZeroExt(t, int(w.Lit.Int64()))}
		default:
			return CV{V: Extract(int(w.Lit.Int64())-1, 0, t), Signed: a.Signed}
		}
	case "slt", "sle", "sgt", "sge", "ult", "ule", "ugt", "uge":
		need(2)
		a := m.ev(env, args[0])
		b := m.ev(env, args[1])
		var s Sort = SBV64
		if t, ok := a.V.(Term); ok && a.Lit == nil {
			s = t.Sort
		} else if t, ok := b.V.(Term); ok && b.Lit == nil {
			s = t.Sort
		}
		l, r := m.asSort(env, a, s), m.asSort(env, b, s)
		f := map[string]func(Term, Term) Term{"slt": BVSlt, "sle": BVSle, "sgt": BVSgt, "sge": BVSge, "ult": BVUlt, "ule": BVUle, "ugt": BVUgt, "uge": BVUge}
		return CV{V: f[name](l, r)}
	case "int8", "int16", "int32", "int64", "int", "uint8", "byte", "uint16", "uint32", "uint64", "uint", "rune":
		need(1)
		a := m.ev(env, args[0])
		s, signed := m.sortByName(name)
		if a.Lit != nil {
			return CV{V: BVLit(a.Lit, s.Width()), Signed: signed}
		}
		t := a.V.(Term)
		if t.Sort.IsFP() {
			m.everr("float to int conversion in contracts: use G.f2i")
		}
		return CV{V: BVConv(t, a.Signed, s.Width()), Signed: signed}
	case "float64", "float32":
		need(1)
		a := m.ev(env, args[0])
		s, _ := m.sortByName(name)
		if a.Lit != nil {
			return CV{V: m.asSort(env, a, s)}
		}
		t := a.V.(Term)
		if t.Sort.IsFP() {
			return CV{V: FPConv(t, s)}
		}
		if a.Signed {
			return CV{V: FPFromSInt(t, s)}
		}
		return CV{V: FPFromUInt(t, s)}
	case "isnan":
		need(1)
		return CV{V: app(SBool, "fp.isNaN", m.ev(env, args[0]).V.(Term))}
	case "fpbits":
		// fpbits(x, b): b is a bit pattern of x
		need(2)
		xv := m.ev(env, args[0]).V.(Term)
		b := m.ev(env, args[1]).V.(Term)
		return CV{V: Eq(FPOfBits(b), xv)}
	case "frombits":
		need(1)
		b := m.ev(env, args[0]).V.(Term)
		return CV{V: FPOfBits(b)}
	case "same":
		// bit-level identity of two FP values or NaN on both sides
		need(2)
		a := m.ev(env, args[0]).V.(Term)
		b := m.ev(env, args[1]).V.(Term)
		return CV{V: Eq(a, b)}
	}
	switch name {
	case "payload":
		need(1)
		a := m.ev(env, args[0])
		if t, ok := a.V.(Term); ok {
			if pv, ok := m.ifacePayload[t.S]; ok {
				return CV{V: pv}
			}
		}
		m.everr("payload: not an interface value with a known payload")
	case "fresh":
		// the value was allocated during this call
		need(1)
		a := m.ev(env, args[0])
		if env.atCallSite {
			// a callee's guarantee of freshness: record it for the caller's own freshness clauses
			switch v := a.V.(type) {
			case *PtrV:
				if v.Obj != nil {
					v.Obj.Sym = false
				}
			case *SliceV:
				v.Obj.Sym = false
			case Term:
				m.cur.freshTerms[v.S] = true
			}
			return CV{V: TTrue}
		}
		switch v := a.V.(type) {
		case *PtrV:
			return CV{V: mkBool(v.Obj != nil && !v.Obj.Sym && v.Obj.ID > m.cur.entryObjN)}
		case *SliceV:
			return CV{V: mkBool(!v.Obj.Sym && v.Obj.ID > m.cur.entryObjN)}
		case Term:
			return CV{V: mkBool(m.cur.freshTerms[v.S])}
		}
		return CV{V: TFalse}
	case "isnilptr":
		need(1)
		a := m.ev(env, args[0])
		if p, ok := a.V.(*PtrV); ok {
			return CV{V: mkBool(p.Obj == nil)}
		}
		m.everr("isnilptr of non-pointer")
	case "chcap", "chlen", "recvs", "sends", "lastrecv", "lastsent":
		need(1)
		a := m.ev(env, args[0])
		ch, ok := a.V.(Term)
		if !ok {
			m.everr("%s of non-channel", name)
		}
		cs := m.chanState(env.cur, ch)
		switch name {
		case "chcap":
			return CV{V: cs.cap, Signed: true}
		case "chlen":
			return CV{V: cs.len, Signed: true}
		case "recvs":
			return CV{V: cs.recvs, Signed: true}
		case "sends":
			return CV{V: cs.sends, Signed: true}
		case "lastrecv":
			if cs.lastRecv == nil {
				return CV{V: Sym("iface.nil", SIface)}
			}
			return CV{V: cs.lastRecv}
		default:
			if cs.lastSent == nil {
				return CV{V: Sym("iface.nil", SIface)}
			}
			return CV{V: cs.lastSent}
		}
	case "tokenof":
		// the token a byte slice stands for when written
		need(1)
		a := m.ev(env, args[0])
		sl, ok := a.V.(*SliceV)
		if !ok {
			m.everr("tokenof of non-slice")
		}
		strm := m.appendTokens(env.cur, Sym("emp", SStrm), sl)
		return CV{V: app(STok, "last", strm)}
	case "bufof":
		need(1)
		a := m.ev(env, args[0])
		_, t := bufContent(m, env.cur, a.V)
		return CV{V: t}
	case "runes":
		need(1)
		a := m.ev(env, args[0])
		return CV{V: app(SRunes, "s.runes", a.V.(Term))}
	case "dyncalls":
		need(0)
		return CV{V: m.ghostOr(env.cur, "@dyncalls", BVLitI(0, 64)), Signed: true}
	case "lastdyn":
		need(0)
		if v, ok := env.cur.ghost["@lastdyn"]; ok {
			return CV{V: v}
		}
		return CV{V: Sym("iface.nil", SIface)}
	case "mapsame":
		// the contents of the map are what they were on entry
		need(1)
		a := m.ev(env, args[0])
		ref, ok := a.V.(Term)
		if !ok || ref.Sort != "MapRef" || a.Typ == nil {
			m.everr("mapsame of non-map")
		}
		if m.cur == nil || m.cur.old == nil {
			m.everr("mapsame outside a function")
		}
		nm := m.mapState(env.cur, ref, a.Typ)
		om := m.mapState(m.cur.old, ref, a.Typ)
		return CV{V: And(Eq(nm.has, om.has), Eq(nm.get, om.get), Eq(nm.size, om.size))}
	case "mapsize":
		need(1)
		a := m.ev(env, args[0])
		ref, ok := a.V.(Term)
		if !ok || ref.Sort != "MapRef" {
			m.everr("mapsize of non-map")
		}
		if v, ok := env.cur.ghost["@map:"+ref.S]; ok {
			return CV{V: v.(*mapContent).size, Signed: true}
		}
		if a.Typ != nil {
			if _, isMap := a.Typ.Underlying().(*types.Map); isMap {
				return CV{V: m.mapState(env.cur, ref, a.Typ).size, Signed: true}
			}
		}
		return CV{V: app(SBV64, "map.size0", ref), Signed: true}
	case "maphas", "mapget":
		need(2)
		a := m.ev(env, args[0])
		ref, ok := a.V.(Term)
		if !ok || ref.Sort != "MapRef" || a.Typ == nil {
			m.everr("%s of non-map", name)
		}
		mc := m.mapState(env.cur, ref, a.Typ)
		k := m.asSort(env, m.ev(env, args[1]), mc.ksort)
		if name == "maphas" {
			return CV{V: And(Not(Eq(ref, Sym("map.nil", "MapRef"))), Select(mc.has, k))}
		}
		return CV{V: Select(mc.get, k), Signed: true}
	case "istype":
		need(2)
		a := m.ev(env, args[0])
		if args[1].Op != "str" {
			m.everr("istype(x, \"type\")")
		}
		t, ok := a.V.(Term)
		if !ok || t.Sort != SIface {
			m.everr("istype of non-interface value")
		}
		ty := m.typeByString(args[1].Name)
		if ty == nil {
			m.everr("istype: unknown type %s", args[1].Name)
		}
		return CV{V: And(Not(Eq(t, Sym("iface.nil", SIface))), Eq(app(SRT, "i.type", t), m.typeConstant(ty)))}
	case "holdervalue":
		// the reflect.Value held by the *_refHolder that interface value x carries
		need(1)
		a := m.ev(env, args[0])
		t, ok := a.V.(Term)
		if !ok || t.Sort != SIface {
			m.everr("holdervalue of non-interface")
		}
		ht := m.typeByString("*_refHolder")
		if ht == nil {
			m.everr("no type _refHolder")
		}
		p := m.assertedPtr(t, ht, ht.Underlying().(*types.Pointer))
		return m.selectField(env, CV{V: p}, "value")
	case "sameptr":
		need(2)
		a, okA := m.ev(env, args[0]).V.(*PtrV)
		b, okB := m.ev(env, args[1]).V.(*PtrV)
		if okA && okB {
			return CV{V: mkBool(a.Obj == b.Obj && pathKey(a.Path) == pathKey(b.Path))}
		}
		m.everr("sameptr of non-pointers")
	}
	// spec functions from the prelude
	if fn, ok := m.prelude.Funcs[name]; ok {
		if len(fn.Params) != len(args) {
			m.everr("%s expects %d arguments, got %d", name, len(fn.Params), len(args))
		}
		var ts []Term
		for i, a := range args {
			ts = append(ts, m.asSort(env, m.ev(env, a), fn.Params[i]))
		}
		r := app(fn.Ret, fn.Name, ts...)
		if len(ts) == 0 {
			r = Sym(fn.Name, fn.Ret)
		}
		return CV{V: r, Signed: fn.Ret.IsBV() && fn.Ret.Width() >= 32}
	}
	m.everr("unknown function %s", name)
	return CV{}
}
