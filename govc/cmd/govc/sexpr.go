package main

// Minimal s-expression reader: used for the SMT prelude (to learn the
// signatures of spec functions) and for solver models.

import (
	"fmt"
	"os"
	"strings"
)

type SExp struct {
	Atom string
	List []*SExp
	IsL  bool
}

func (s *SExp) String() string {
	if !s.IsL {
		return s.Atom
	}
	var parts []string
	for _, c := range s.List {
		parts = append(parts, c.String())
	}
	return "(" + strings.Join(parts, " ") + ")"
}

func readSExps(text string) ([]*SExp, error) {
	var out []*SExp
	i := 0
	for {
		e, j, err := readSExp(text, i)
		if err != nil {
			return nil, err
		}
		if e == nil {
			return out, nil
		}
		out = append(out, e)
		i = j
	}
}

func skipWS(s string, i int) int {
	for i < len(s) {
		c := s[i]
		if c == ';' {
			for i < len(s) && s[i] != '\n' {
				i++
			}
		} else if c == ' ' || c == '\n' || c == '\t' || c == '\r' {
			i++
		} else {
			break
		}
	}
	return i
}

func readSExp(s string, i int) (*SExp, int, error) {
	i = skipWS(s, i)
	if i >= len(s) {
		return nil, i, nil
	}
	if s[i] == '(' {
		i++
		n := &SExp{IsL: true}
		for {
			i = skipWS(s, i)
			if i >= len(s) {
				return nil, i, fmt.Errorf("unbalanced parens")
			}
			if s[i] == ')' {
				return n, i + 1, nil
			}
			c, j, err := readSExp(s, i)
			if err != nil {
				return nil, j, err
			}
			n.List = append(n.List, c)
			i = j
		}
	}
	if s[i] == ')' {
		return nil, i, fmt.Errorf("unexpected )")
	}
	j := i
	if s[i] == '"' {
		j++
		for j < len(s) && s[j] != '"' {
			j++
		}
		j++
	} else if s[i] == '|' {
		j++
		for j < len(s) && s[j] != '|' {
			j++
		}
		j++
	} else {
		for j < len(s) && !strings.ContainsRune(" \n\t\r()", rune(s[j])) {
			j++
		}
	}
	return &SExp{Atom: s[i:j]}, j, nil
}

type SpecFn struct {
	Name   string
	Params []Sort
	PNames []string
	Ret    Sort
	Rec    bool
	Body   *SExp
}

type Prelude struct {
	Text  string
	Funcs map[string]*SpecFn
	Sorts map[string]bool
	// constructor/selector signatures from declare-datatypes
}

func loadPrelude(paths []string) (*Prelude, error) {
	p := &Prelude{Funcs: map[string]*SpecFn{}, Sorts: map[string]bool{}}
	for _, path := range paths {
		b, err := os.ReadFile(path)
		if err != nil {
			return nil, err
		}
		p.Text += "; ---- " + path + "\n" + string(b) + "\n"
		es, err := readSExps(string(b))
		if err != nil {
			return nil, fmt.Errorf("%s: %v", path, err)
		}
		for _, e := range es {
			if !e.IsL || len(e.List) == 0 {
				continue
			}
			switch e.List[0].Atom {
			case "define-fun", "define-fun-rec":
				fn := &SpecFn{Name: e.List[1].Atom, Ret: Sort(e.List[3].String()), Rec: e.List[0].Atom == "define-fun-rec"}
				for _, pr := range e.List[2].List {
					fn.PNames = append(fn.PNames, pr.List[0].Atom)
					fn.Params = append(fn.Params, Sort(pr.List[1].String()))
				}
				if fn.Rec {
					fn.Body = e.List[4]
				}
				p.Funcs[fn.Name] = fn
			case "declare-fun":
				fn := &SpecFn{Name: e.List[1].Atom, Ret: Sort(e.List[3].String())}
				for _, pr := range e.List[2].List {
					fn.Params = append(fn.Params, Sort(pr.String()))
				}
				p.Funcs[fn.Name] = fn
			case "declare-const":
				p.Funcs[e.List[1].Atom] = &SpecFn{Name: e.List[1].Atom, Ret: Sort(e.List[2].String())}
			case "declare-sort":
				p.Sorts[e.List[1].Atom] = true
			case "declare-datatypes":
				// ((Name 0) ...) ( ((ctor (sel Sort)...) ...) ... )
				names := e.List[1].List
				defs := e.List[2].List
				for k, nm := range names {
					dt := nm.List[0].Atom
					p.Sorts[dt] = true
					for _, ctor := range defs[k].List {
						if !ctor.IsL {
							p.Funcs[ctor.Atom] = &SpecFn{Name: ctor.Atom, Ret: Sort(dt)}
							continue
						}
						cf := &SpecFn{Name: ctor.List[0].Atom, Ret: Sort(dt)}
						for _, sel := range ctor.List[1:] {
							ss := Sort(sel.List[1].String())
							cf.Params = append(cf.Params, ss)
							p.Funcs[sel.List[0].Atom] = &SpecFn{Name: sel.List[0].Atom, Params: []Sort{Sort(dt)}, Ret: ss}
						}
						p.Funcs[cf.Name] = cf
						p.Funcs["is-"+cf.Name] = &SpecFn{Name: "(_ is " + cf.Name + ")", Params: []Sort{Sort(dt)}, Ret: SBool}
					}
				}
			}
		}
	}
	return p, nil
}

// substitute returns the body with parameter atoms replaced by argument texts.
func (s *SExp) substitute(sub map[string]string) string {
	if !s.IsL {
		if r, ok := sub[s.Atom]; ok {
			return r
		}
		return s.Atom
	}
	var parts []string
	for _, c := range s.List {
		parts = append(parts, c.substitute(sub))
	}
	return "(" + strings.Join(parts, " ") + ")"
}

// findApps collects the applications of the named functions in e.
func findApps(e *SExp, names map[string]*SpecFn, out map[string]*SExp) {
	if !e.IsL {
		return
	}
	if len(e.List) > 0 && !e.List[0].IsL {
		if fn, ok := names[e.List[0].Atom]; ok && len(e.List) == len(fn.Params)+1 {
			out[e.String()] = e
		}
	}
	for _, c := range e.List {
		findApps(c, names, out)
	}
}
