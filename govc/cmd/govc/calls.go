package main

// Calls: modular (callee contract), inlined (no contract, in package), trusted
// external models, builtins.

import (
	"fmt"
	"go/token"
	"go/types"
	"strings"

	"golang.org/x/tools/go/ssa"
)

func funcKey(fn *ssa.Function) string {
	if fn.Pkg != nil {
		return fn.RelString(fn.Pkg.Pkg)
	}
	return fn.String()
}

type extOutcome struct {
	cond  Term
	res   []Value
	apply func(st *State)
}

type extHandler func(m *Machine, c *Config, call ssa.CallInstruction, args []Value) []extOutcome

func (m *Machine) doCall(c *Config, call ssa.CallInstruction) (*Config, []*Config) {
	com := call.Common()
	var args []Value
	for _, a := range com.Args {
		args = append(args, m.operand(c, a))
	}
	if com.IsInvoke() {
		recv := m.operand(c, com.Value)
		name := ifaceMethodKey(com)
		h, ok := invokeHandlers[name]
		if !ok {
			h, ok = invokeHandlers["*."+com.Method.Name()]
		}
		if !ok && strings.HasPrefix(name, "reflect.Type.") {
			return m.pureExternal(c, call, name, append([]Value{recv}, args...))
		}
		if !ok && strings.HasSuffix(name, ".HessianCodecName") {
			// user-supplied naming method: a function of its receiver (A-DYN)
			c.st.trust("A-DYN: HessianCodecName is a pure function of its receiver")
			return m.pureExternal(c, call, name, append([]Value{recv}, args...))
		}
		if !ok {
			return m.havocCall(c, call, "invoke "+name)
		}
		return m.applyOutcomes(c, call, h(m, c, call, append([]Value{recv}, args...)), "ext:"+name)
	}
	if b, ok := com.Value.(*ssa.Builtin); ok {
		return m.builtin(c, call, b.Name(), args)
	}
	callee := com.StaticCallee()
	var bind []Value
	if callee == nil {
		fv, ok := m.operand(c, com.Value).(*FuncV)
		if !ok || fv.Fn == nil {
			return m.dynCall(c, call)
		}
		callee = fv.Fn
		bind = fv.Bind
	} else if mc, ok := com.Value.(*ssa.MakeClosure); ok {
		for _, b := range mc.Bindings {
			bind = append(bind, m.operand(c, b))
		}
	}
	key := funcKey(callee)
	if m.cur != nil && c.top.fn == m.cur.fn && c.top.parent == nil {
		if cur := m.contracts.Funcs[m.cur.key]; cur != nil {
			for _, ac := range cur.AtCalls {
				if ac.Callee == key {
					m.atCallObligation(c, call, cur, ac)
				}
			}
		}
	}
	if callee.Pkg == m.pkg || (callee.Parent() != nil && callee.Parent().Pkg == m.pkg) {
		if fc := m.contracts.Funcs[key]; fc != nil && (len(fc.Ensures) > 0 || len(fc.Requires) > 0 || fc.Trusted != "" || fc.HasAssigns || len(fc.Proves) > 0 || fc.Defines != nil) {
			return m.contractCall(c, call, callee, fc, args)
		}
		if h, ok := extHandlers[key]; ok { // in-package functions with a built-in model (newCodecError)
			return m.applyOutcomes(c, call, h(m, c, call, args), "model:"+key)
		}
		return m.inlineCall(c, call, callee, args, bind)
	}
	full := callee.String()
	if h, ok := extHandlers[full]; ok {
		return m.applyOutcomes(c, call, h(m, c, call, args), "ext:"+full)
	}
	if callee.Pkg != nil && pureExternalPkgs[callee.Pkg.Pkg.Path()] {
		return m.pureExternal(c, call, full, args)
	}
	return m.havocCall(c, call, full)
}

func ifaceMethodKey(com *ssa.CallCommon) string {
	return typeString(com.Value.Type()) + "." + com.Method.Name()
}

func (m *Machine) applyOutcomes(c *Config, call ssa.CallInstruction, outs []extOutcome, trust string) (*Config, []*Config) {
	c.st.trust(trust)
	var cfgs []*Config
	for i, o := range outs {
		cc := c
		if i < len(outs)-1 {
			cc = c.clone()
		}
		cc.st.assume(o.cond)
		if cc.st.dead {
			continue
		}
		if o.apply != nil {
			o.apply(cc.st)
		}
		m.bindCallResult(cc, call, o.res)
		cfgs = append(cfgs, cc)
	}
	if len(cfgs) == 0 {
		c.st.dead = true
		return nil, nil
	}
	return cfgs[0], cfgs[1:]
}

// havocCall: an un-modelled callee. Results are unconstrained and the path is
// marked ABSTRACT; all mutable ghosts are havocked.
func (m *Machine) havocCall(c *Config, call ssa.CallInstruction, what string) (*Config, []*Config) {
	c.st.abstract = true
	c.st.trust("havoc:" + what)
	for name, v := range c.st.ghost {
		if ghostImmutable[name] {
			continue
		}
		if t, ok := v.(Term); ok {
			c.st.ghost[name] = m.syms.fresh(name, t.Sort)
		}
	}
	if v := call.Value(); v != nil {
		sig := call.Common().Signature()
		res := sig.Results()
		switch res.Len() {
		case 0:
		case 1:
			c.top.regs[v] = m.freshValue("r."+shortName(what), res.At(0).Type())
		default:
			c.top.regs[v] = m.freshValue("r."+shortName(what), res)
		}
	}
	return c, nil
}

func shortName(s string) string {
	if i := strings.LastIndexAny(s, "./ "); i >= 0 {
		return s[i+1:]
	}
	return s
}

func (m *Machine) inlineCall(c *Config, call ssa.CallInstruction, callee *ssa.Function, args []Value, bind []Value) (*Config, []*Config) {
	if callee.Blocks == nil {
		return m.havocCall(c, call, callee.String())
	}
	depth := 0
	for f := c.top; f != nil; f = f.parent {
		depth++
		if f.fn == callee {
			m.unsup("recursive call of %s without a contract", funcKey(callee))
		}
	}
	if depth > m.inlineMax {
		m.unsup("inlining depth exceeded at %s", funcKey(callee))
	}
	fr := &Frame{fn: callee, regs: map[ssa.Value]Value{}, parent: c.top, call: call, active: map[*ssa.BasicBlock]*loopCtx{}}
	for i, p := range callee.Params {
		fr.regs[p] = args[i]
	}
	for i, fv := range callee.FreeVars {
		if i < len(bind) {
			fr.regs[fv] = bind[i]
		}
	}
	fr.block = callee.Blocks[0]
	c.top = fr
	return c, nil
}

// ---------- modular call ----------

func (m *Machine) contractCall(c *Config, call ssa.CallInstruction, callee *ssa.Function, fc *FuncContract, args []Value) (*Config, []*Config) {
	st := c.st
	env := &Env{m: m, vars: map[string]CV{}, lets: fc.Lets, cur: st, bound: map[string]CV{}, atCallSite: true}
	env.paramNames = map[string]bool{}
	for i, p := range callee.Params {
		env.vars[p.Name()] = CV{V: args[i], Signed: isSigned(p.Type()), Typ: p.Type()}
		env.paramNames[p.Name()] = true
	}
	key := funcKey(callee)
	if m.usedContracts != nil {
		m.usedContracts[key] = true
	}
	for _, r := range fc.Requires {
		g, err := m.evalBool(env, r.Expr)
		if err != nil {
			m.errs = append(m.errs, fmt.Sprintf("contract of %s: requires: %v", key, err))
			continue
		}
		lbl := key
		if r.Label != "" {
			lbl += ":" + r.Label
		}
		m.emit(c, "pre", lbl, r.Props, g, m.site(call), r.Src)
		st.assume(g)
	}
	if fc.Measure != nil && m.cur != nil && callee == m.cur.fn {
		m.measureObligation(c, call, fc, env)
	}
	if fc.Depth != nil && m.cur != nil {
		if cur := m.contracts.Funcs[m.cur.key]; cur != nil && cur.Depth != nil && cur.Depth.Label == fc.Depth.Label {
			m.depthObligation(c, call, cur, fc, env)
		}
	}
	old := st.clone()
	// havoc the frame
	for _, a := range fc.Assigns {
		m.havocLoc(c, env, a)
	}
	if !fc.HasAssigns && fc.Trusted != "" {
		// a trusted contract without a frame: everything reachable is assumed modified (a verified contract
		// without an assigns clause assigns nothing, and its body is checked against that)
		for name, v := range st.ghost {
			if ghostImmutable[name] {
				continue
			}
			if t, ok := v.(Term); ok {
				st.ghost[name] = m.syms.fresh(name, t.Sort)
			}
		}
		for _, a := range args {
			if p, ok := a.(*PtrV); ok && p.Obj != nil {
				for k := range st.mem {
					if k.obj == p.Obj {
						delete(st.mem, k)
					}
				}
				st.markHavocked(p.Obj, "")
			}
		}
	}
	// results
	sig := callee.Signature
	var res []Value
	for i := 0; i < sig.Results().Len(); i++ {
		rv := sig.Results().At(i)
		v := m.freshValue(fmt.Sprintf("%s.r%d", shortName(key), i), rv.Type())
		if sl, ok := v.(*SliceV); ok {
			m.sliceWF(st, sl)
		}
		res = append(res, v)
	}
	if fc.Defines != nil && len(res) > 0 {
		// the result is, by definition, the named spec function of the arguments
		if cv, err := m.eval(env, fc.Defines); err == nil {
			res[0] = cv.V
		} else {
			m.errs = append(m.errs, fmt.Sprintf("contract of %s: defines: %v", key, err))
		}
	}
	m.bindResults(env, sig, res)
	env.old = old
	if fc.Token != nil && len(res) > 0 {
		if sl, ok := res[0].(*SliceV); ok {
			if cv, err := m.eval(env, fc.Token); err == nil {
				if t, ok := cv.V.(Term); ok && t.Sort == STok {
					m.sliceTok[sl.Obj] = t
				}
			} else {
				m.errs = append(m.errs, fmt.Sprintf("contract of %s: token: %v", key, err))
			}
		}
	}
	m.applySets(env, fc.Sets, st)
	for _, e := range fc.Ensures {
		g, err := m.evalBool(env, e.Expr)
		if err != nil {
			m.errs = append(m.errs, fmt.Sprintf("contract of %s: ensures [%s]: %v", key, e.Label, err))
			continue
		}
		st.assume(g)
	}
	m.applySets(env, fc.Summary, st)
	if fc.Trusted != "" {
		st.trust("trusted-contract:" + key)
	} else {
		st.trust("contract:" + key)
	}
	m.bindCallResult(c, call, res)
	return c, nil
}

func (m *Machine) site(ins ssa.Instruction) string {
	if p := ins.Pos(); p.IsValid() {
		pp := m.fset.Position(p)
		return fmt.Sprintf("%s:%d", shortFile(pp.Filename), pp.Line)
	}
	return ""
}

func (m *Machine) bindResults(env *Env, sig *types.Signature, res []Value) {
	n := sig.Results().Len()
	for i := 0; i < n; i++ {
		rv := sig.Results().At(i)
		cv := CV{V: res[i], Signed: isSigned(rv.Type()), Typ: rv.Type()}
		env.vars[fmt.Sprintf("result%d", i)] = cv
		if rv.Name() != "" && rv.Name() != "_" {
			env.vars[rv.Name()] = cv
		}
		if i == 0 {
			env.vars["result"] = cv
		}
		if i == n-1 && isErrorType(rv.Type()) {
			if !env.paramNames["err"] {
				env.vars["err"] = cv
			}
		}
	}
}

// havocLoc havocs a location named in an assigns clause: a ghost (@x) or a
// receiver/parameter field path (d.typList).
func (m *Machine) havocLoc(c *Config, env *Env, loc string) {
	st := c.st
	if strings.HasPrefix(loc, "@") {
		v := m.ghost(st, loc)
		if t, ok := v.(Term); ok {
			st.ghost[loc] = m.syms.fresh(loc, t.Sort)
			m.ghostInvariant(st, loc)
		}
		return
	}
	if strings.HasPrefix(loc, "mapof(") && strings.HasSuffix(loc, ")") {
		// contents of a map held in a field: the field keeps its reference, the contents are unknown afterwards
		e, err := parseExpr(loc[len("mapof(") : len(loc)-1])
		if err != nil {
			m.errs = append(m.errs, "assigns: "+err.Error())
			return
		}
		cv, err := m.eval(env, e)
		if err != nil {
			if strings.Contains(err.Error(), " of nil") {
				return // the holder of the map is a nil pointer at this call: there is no map to change
			}
			m.errs = append(m.errs, "assigns: "+err.Error())
			return
		}
		ref, ok := cv.V.(Term)
		if !ok || ref.Sort != "MapRef" {
			m.errs = append(m.errs, "assigns: "+loc+" is not a map")
			return
		}
		if mc, ok := st.ghost["@map:"+ref.S].(*mapContent); ok {
			n := &mapContent{ksort: mc.ksort, vsort: mc.vsort,
				has: m.syms.fresh("map.has", mc.has.Sort), get: m.syms.fresh("map.get", mc.get.Sort), size: m.syms.fresh("map.size", SBV64)}
			st.assume(And(BVSge(n.size, BVLitI(0, 64)), BVSle(n.size, BVLitI(1<<40, 64))))
			st.ghost["@map:"+ref.S] = n
		} else {
			// not yet materialised: mark so that a later materialisation is fresh, not the initial contents
			st.ghost["@mapfresh:"+ref.S] = TTrue
		}
		return
	}
	parts := strings.Split(loc, ".")
	base, ok := env.vars[parts[0]]
	if !ok {
		m.errs = append(m.errs, fmt.Sprintf("assigns: unknown base %s", loc))
		return
	}
	p, ok := base.V.(*PtrV)
	if !ok || p.Obj == nil {
		if sl, ok := base.V.(*SliceV); ok && len(parts) == 1 {
			st.mem[cellKey{sl.Obj, ""}] = m.syms.fresh(sl.Obj.Name+".arr", ArraySort(SBV64, sl.Obj.Elem))
		}
		return
	}
	path := append([]int{}, p.Path...)
	t := p.Obj.Typ
	for _, i := range p.Path {
		t = t.Underlying().(*types.Struct).Field(i).Type()
	}
	for _, name := range parts[1:] {
		stt, ok := t.Underlying().(*types.Struct)
		if !ok {
			m.errs = append(m.errs, fmt.Sprintf("assigns: %s is not a struct path", loc))
			return
		}
		found := false
		for i := 0; i < stt.NumFields(); i++ {
			if stt.Field(i).Name() == name {
				path = append(path, i)
				t = stt.Field(i).Type()
				found = true
				break
			}
		}
		if !found {
			m.errs = append(m.errs, fmt.Sprintf("assigns: no field %s in %s", name, loc))
			return
		}
	}
	pk := pathKey(path)
	for k := range st.mem {
		if k.obj == p.Obj && (k.path == pk || strings.HasPrefix(k.path, pk+".")) {
			delete(st.mem, k)
		}
	}
	// force a fresh (not initial-named) value
	v := m.freshValue(p.Obj.Name+pathName(p.Obj, path)+"'", t)
	if sl, ok := v.(*SliceV); ok {
		m.sliceWF(st, sl)
	}
	st.mem[cellKey{p.Obj, pk}] = v
}

// ---------- builtins ----------

func (m *Machine) builtin(c *Config, call ssa.CallInstruction, name string, args []Value) (*Config, []*Config) {
	st := c.st
	switch name {
	case "len", "cap":
		switch a := args[0].(type) {
		case *SliceV:
			if name == "cap" {
				m.bindCallResult(c, call, []Value{a.Cap})
			} else {
				m.bindCallResult(c, call, []Value{a.Len})
			}
			return c, nil
		case Term:
			if a.Sort == SStr {
				ln := app(SBV64, "s.len", a)
				m.bindCallResult(c, call, []Value{ln})
				return c, nil
			}
			if a.Sort == "MapRef" {
				m.bindCallResult(c, call, []Value{m.mapLen(c, a)})
				return c, nil
			}
			if a.Sort == SObj { // channel
				cs := m.chanState(c.st, a)
				if name == "cap" {
					m.bindCallResult(c, call, []Value{cs.cap})
				} else {
					m.bindCallResult(c, call, []Value{cs.len})
				}
				return c, nil
			}
		}
	case "append":
		return m.appendBuiltin(c, call, args)
	case "copy":
		dst, ok1 := args[0].(*SliceV)
		if !ok1 {
			break
		}
		var n Term
		switch src := args[1].(type) {
		case *SliceV:
			n = Ite(BVUlt(dst.Len, src.Len), dst.Len, src.Len)
			darr := m.loadArr(st, dst.Obj)
			sarr := m.loadArr(st, src.Obj)
			st.mem[cellKey{dst.Obj, ""}] = m.copyArr(st, darr, dst.Off, sarr, src.Off, n, dst.Obj.Elem)
		case Term: // string source
			ln := app(SBV64, "s.len", src)
			n = Ite(BVUlt(dst.Len, ln), dst.Len, ln)
			darr := m.loadArr(st, dst.Obj)
			sarr := app(SArr8, "s.arr", src)
			st.mem[cellKey{dst.Obj, ""}] = m.copyArr(st, darr, dst.Off, sarr, BVLitI(0, 64), n, SBV8)
		}
		m.bindCallResult(c, call, []Value{n})
		return c, nil
	case "print", "println":
		return c, nil
	case "recover":
		// on a path that did not panic recover() returns nil
		m.bindCallResult(c, call, []Value{Sym("iface.nil", SIface)})
		return c, nil
	case "delete":
		m.mapDelete(c, call.Common().Args[0], call.Common().Args[1])
		m.bindCallResult(c, call, nil)
		return c, nil
	}
	m.unsup("builtin %s", name)
	return nil, nil
}

// copyArr models dst[doff:doff+n] = src[soff:soff+n]; small constant n is unrolled,
// otherwise the uninterpreted copy function with its defining axiom is used.
func (m *Machine) copyArr(st *State, dst, doff, src, soff, n Term, el Sort) Term {
	if n.IsConst() && n.C.Int64() <= 16 {
		for i := int64(0); i < n.C.Int64(); i++ {
			dst = Store(dst, BVAdd(doff, BVLitI(i, 64)), Select(src, BVAdd(soff, BVLitI(i, 64))))
		}
		return dst
	}
	return app(dst.Sort, "copy."+sortTag(el), dst, doff, src, soff, n)
}

func (m *Machine) appendBuiltin(c *Config, call ssa.CallInstruction, args []Value) (*Config, []*Config) {
	st := c.st
	base, ok := args[0].(*SliceV)
	if !ok {
		m.unsup("append to %T", args[0])
	}
	// append(s, elems...) where elems is the variadic slice
	var addLen Term
	var add *SliceV
	var addStr *Term
	switch a := args[1].(type) {
	case *SliceV:
		add = a
		addLen = a.Len
	case Term:
		if a.Sort != SStr {
			m.unsup("append of %s", a.Sort)
		}
		addStr = &a
		addLen = app(SBV64, "s.len", a)
	default:
		m.unsup("append of %T", args[1])
	}
	// result: fresh object holding old contents followed by the new ones
	obj := m.newObj("append", base.Obj.Typ, true, base.Obj.Elem)
	oldArr := m.loadArr(st, base.Obj)
	var narr Term
	if base.Off.IsConst() && base.Off.C.Sign() == 0 {
		narr = oldArr // arrays are values: positions >= len are overwritten below or never read
	} else {
		narr = m.copyArr(st, m.syms.fresh("append.arr", ArraySort(SBV64, base.Obj.Elem)), BVLitI(0, 64), oldArr, base.Off, base.Len, base.Obj.Elem)
	}
	if add != nil {
		if add.Len.IsConst() && add.Len.C.Int64() <= 8 {
			aarr := m.loadArr(st, add.Obj)
			for i := int64(0); i < add.Len.C.Int64(); i++ {
				narr = Store(narr, BVAdd(base.Len, BVLitI(i, 64)), Select(aarr, BVAdd(add.Off, BVLitI(i, 64))))
			}
		} else {
			narr = m.copyArr(st, narr, base.Len, m.loadArr(st, add.Obj), add.Off, add.Len, base.Obj.Elem)
		}
	} else if addStr != nil {
		narr = m.copyArr(st, narr, base.Len, app(SArr8, "s.arr", *addStr), BVLitI(0, 64), addLen, SBV8)
	}
	st.mem[cellKey{obj, ""}] = narr
	nl := BVAdd(base.Len, addLen)
	ncap := m.syms.fresh("append.cap", SBV64)
	st.assume(BVUle(nl, ncap))
	res := &SliceV{Obj: obj, Off: BVLitI(0, 64), Len: nl, Cap: ncap, Nil: And(base.Nil, Eq(addLen, BVLitI(0, 64)))}
	m.bindCallResult(c, call, []Value{res})
	return c, nil
}

// dynCall: call of an unknown function value (pool factory, value extractor).
// The result is unconstrained; the call is counted in the ghosts @dyncalls / @lastdyn.
// Assumption A-DYN: the callee does not touch the caller's receiver state or ghosts.
func (m *Machine) dynCall(c *Config, call ssa.CallInstruction) (*Config, []*Config) {
	st := c.st
	st.abstract = true
	st.trust("A-DYN: dynamically called function values do not modify the caller's instance")
	sig := call.Common().Signature()
	var res []Value
	for i := 0; i < sig.Results().Len(); i++ {
		res = append(res, m.freshValue("dyn", sig.Results().At(i).Type()))
	}
	st.ghost["@dyncalls"] = BVAdd(m.ghostOr(st, "@dyncalls", BVLitI(0, 64)), BVLitI(1, 64))
	if len(res) > 0 {
		st.ghost["@lastdyn"] = res[0]
		if b, ok := res[0].(Term); ok && b.Sort == SBool {
			// number of dynamic calls that answered true (termination measure of ExtractValue)
			st.ghost["@dyntrue"] = BVAdd(m.ghost(st, "@dyntrue").(Term), Ite(b, BVLitI(1, 64), BVLitI(0, 64)))
		}
	}
	m.bindCallResult(c, call, res)
	return c, nil
}

// ---------- uninterpreted externals ----------
// Functions of reflect, strings, fmt, ... that have no dedicated model are
// treated as uninterpreted functions of their arguments (so two calls with the
// same arguments agree), never touching ghost or instance state.  Allocating
// reflect functions return a fresh value per call; reflect setters only mark
// the path ABSTRACT.  All of this is the trusted reflection model R (DESIGN §3.3).

var pureExternalPkgs = map[string]bool{"reflect": true, "strings": true, "fmt": true, "errors": true, "math": true, "unicode/utf8": true, "path/filepath": true, "runtime": true, "strconv": true, "unicode": true}

var allocExternals = map[string]bool{"reflect.New": true, "reflect.MakeSlice": true, "reflect.MakeMap": true, "reflect.Append": true, "reflect.MakeMapWithSize": true, "reflect.Zero": true}

func isReflectSetter(name string) bool {
	return strings.HasPrefix(name, "(reflect.Value).Set")
}

func (m *Machine) pureExternal(c *Config, call ssa.CallInstruction, full string, args []Value) (*Config, []*Config) {
	st := c.st
	st.abstract = true
	st.trust("R:" + full)
	sig := call.Common().Signature()
	nres := sig.Results().Len()
	fname := "X." + sanitize(full)
	if isReflectSetter(full) {
		// a setter whose receiver derives from a value allocated in this call (reflect.New,
		// MakeSlice, MakeMap) writes fresh memory; any other setter is counted in @rset
		fresh := false
		if rt, ok := args[0].(Term); ok {
			for sym := range smtSymbols(rt.S) {
				if m.cur.freshTerms[sym] {
					fresh = true
				}
			}
		}
		m.reflectWrites = append(m.reflectWrites, reflectWrite{fn: c.top.fn, pos: call.Pos(), what: full})
		if !fresh {
			st.ghost["@rset"] = BVAdd(m.ghost(st, "@rset").(Term), BVLitI(1, 64))
			kind := int64(7)
			switch full {
			case "(reflect.Value).SetInt":
				kind = 1
			case "(reflect.Value).SetUint":
				kind = 2
			case "(reflect.Value).SetFloat":
				kind = 3
			case "(reflect.Value).SetBool":
				kind = 4
			case "(reflect.Value).SetString":
				kind = 5
			case "(reflect.Value).Set":
				kind = 6
			}
			st.ghost["@lastsetk"] = BVLitI(kind, 64)
			if len(args) == 2 {
				if a, ok := args[1].(Term); ok {
					switch {
					case kind <= 2 && a.Sort == SBV64:
						st.ghost["@lastseti"] = a
					case kind == 3 && a.Sort == SF64:
						st.ghost["@lastsetf"] = a
					case kind == 4 && a.Sort == SBool:
						st.ghost["@lastsetb"] = a
					case kind == 5 && a.Sort == SStr:
						st.ghost["@lastsets"] = a
					}
				}
			}
		}
		m.bindCallResult(c, call, nil)
		return c, nil
	}
	if full == "(reflect.Value).Interface" && len(args) == 1 {
		// reflect precondition: a value obtained from a struct field can be read only if the field is exported.
		// (Other receivers - map keys, slice elements, values made by reflect.ValueOf - are readable whenever
		// their container was.)  Checked in the encoder, where no recover stands behind it.
		if rt, ok := args[0].(Term); ok && strings.HasPrefix(rt.S, "(X._reflect.Value_.Field.r0 ") && strings.Contains(funcKey(c.top.fn), "(*Encoder)") {
			m.syms.declareFun("X._reflect.Value_.CanInterface.r0", []Sort{SRV}, SBool)
			m.safety(c, "safe-reflect", app(SBool, "X._reflect.Value_.CanInterface.r0", rt), call.Pos())
		}
		// ... and the result of MapIndex is the zero Value for a key that is not in the map - which is the case
		// for a key that is not equal to itself (NaN), even when it came from MapKeys
		if rt, ok := args[0].(Term); ok && strings.HasPrefix(rt.S, "(X._reflect.Value_.MapIndex.r0 ") && strings.Contains(funcKey(c.top.fn), "(*Encoder)") {
			m.safety(c, "safe-reflect", app(SBool, "X._reflect.Value_.IsValid.r0", rt), call.Pos())
		}
	}
	var ats []Term
	functional := !allocExternals[full]
	for _, a := range args {
		switch x := a.(type) {
		case Term:
			ats = append(ats, x)
		case *SliceV:
			if s := seqSortFor(x.Obj.Elem); s != SObj {
				ats = append(ats, m.packTerm(st, x, s))
			} else {
				functional = false
			}
		default:
			functional = false
		}
	}
	var res []Value
	for i := 0; i < nres; i++ {
		rt := sig.Results().At(i).Type()
		res = append(res, m.uninterpResult(st, fmt.Sprintf("%s.r%d", fname, i), ats, rt, functional))
	}
	if full == "reflect.MakeSlice" && len(ats) >= 2 {
		m.allocBound(c, ats[1], call.Pos())
	}
	if allocExternals[full] && nres == 1 {
		if t, ok := res[0].(Term); ok {
			m.cur.freshTerms[t.S] = true
			// remember what it was made from (type argument etc.)
			var as []string
			for _, a := range ats {
				as = append(as, a.S)
			}
			m.allocInfo[t.S] = allocRec{fn: full, args: ats}
		}
	}
	m.bindCallResult(c, call, res)
	return c, nil
}

type allocRec struct {
	fn   string
	args []Term
}

type reflectWrite struct {
	fn   *ssa.Function
	pos  token.Pos
	what string
}

func (m *Machine) uninterpResult(st *State, fname string, args []Term, rt types.Type, functional bool) Value {
	s := m.sortOf(rt)
	if s != "" {
		if !functional {
			return m.syms.fresh(fname, s)
		}
		var asorts []Sort
		for _, a := range args {
			asorts = append(asorts, a.Sort)
		}
		sig := fname + "/" + fmt.Sprint(asorts)
		dn, ok := m.uninterpNames[sig]
		if !ok {
			dn = fname
			if _, clash := m.uninterpUsed[dn]; clash {
				dn = fmt.Sprintf("%s.%d", fname, len(m.uninterpUsed))
			}
			m.uninterpUsed[dn] = true
			m.uninterpNames[sig] = dn
			if pf, ok := m.prelude.Funcs[dn]; ok && len(pf.Params) == len(asorts) && pf.Ret == s {
				// declared (with its axioms) in the reflection prelude
			} else {
				m.syms.declareFun(dn, asorts, s)
			}
		}
		if len(args) == 0 {
			return Sym(dn, s)
		}
		return app(s, dn, args...)
	}
	switch u := rt.Underlying().(type) {
	case *types.Struct:
		sv := &StructV{Typ: rt}
		for i := 0; i < u.NumFields(); i++ {
			sv.F = append(sv.F, m.uninterpResult(st, fname+"."+u.Field(i).Name(), args, u.Field(i).Type(), functional))
		}
		return sv
	case *types.Slice:
		v := m.freshValue(fname, rt).(*SliceV)
		m.sliceWF(st, v)
		if functional {
			// the length is a function of the arguments (e.g. MapKeys)
			var asorts []Sort
			for _, a := range args {
				asorts = append(asorts, a.Sort)
			}
			ln := m.uninterpResult(st, fname+".len", args, types.Typ[types.Int], true).(Term)
			st.assume(Eq(v.Len, ln))
			st.assume(BVSge(ln, BVLitI(0, 64)))
		}
		return v
	}
	return m.freshValue(fname, rt)
}

// ghostInvariant re-establishes the type invariant of a ghost after it was havocked:
// the read position never exceeds the input length.
func (m *Machine) ghostInvariant(st *State, name string) {
	if name == "@pos" {
		in := m.ghost(st, "@in").(Term)
		st.assume(BVUle(st.ghost["@pos"].(Term), app(SBV64, "blen", in)))
	}
}

// measureObligation: termination of recursion (C04, C16).  "measure grows G then shrinks S":
// at every recursive call G (evaluated in the current state) has grown since entry, or is
// unchanged and S of the call's arguments is smaller than S of this activation's arguments.
// Well-foundedness (G is bounded above, S is bounded below) is a stated assumption.
// atCallObligation: the clause must hold in the state in which the callee is about to be called.
func (m *Machine) atCallObligation(c *Config, call ssa.CallInstruction, cur *FuncContract, ac *AtCall) {
	env := m.baseEnv(c)
	m.bindLocals(c, c.top.fn, env, c.top.block)
	for _, name := range cur.LetOrder {
		env.lets[name] = cur.Lets[name]
	}
	// arg0, arg1, ...: the actual arguments of this call (arg0 is the receiver of a method call)
	for i, a := range call.Common().Args {
		func() {
			defer func() { recover() }()
			env.vars[fmt.Sprintf("arg%d", i)] = CV{V: m.operand(c, a), Signed: isSigned(a.Type()), Typ: a.Type()}
		}()
	}
	cv, err := m.eval(env, ac.Clause.Expr)
	if err != nil {
		m.errs = append(m.errs, "atcall "+ac.Callee+": "+err.Error())
		return
	}
	g, ok := cv.V.(Term)
	if !ok || g.Sort != SBool {
		m.errs = append(m.errs, "atcall "+ac.Callee+": not a boolean")
		return
	}
	m.emit(c, "at-call", ac.Clause.Label, ac.Clause.Props, g, m.site(call), ac.Clause.Src)
}

// depthObligation: lexicographic decrease of (measure, rank) at a call between two members of a recursion group.
func (m *Machine) depthObligation(c *Config, call ssa.CallInstruction, cur, callee *FuncContract, calleeEnv *Env) {
	entryEnv := m.baseEnv(c)
	entryEnv.cur = m.cur.old
	ev := func(env *Env, x *Expr) (Term, bool) {
		cv, err := m.eval(env, x)
		if err != nil {
			m.errs = append(m.errs, "depth: "+err.Error())
			return Term{}, false
		}
		t, ok := cv.V.(Term)
		return t, ok && t.Sort.IsBV()
	}
	m0, ok0 := ev(entryEnv, cur.Depth.Expr)
	m1, ok1 := ev(calleeEnv, callee.Depth.Expr)
	goal := TFalse
	if ok0 && ok1 {
		lt := And(BVSlt(m1, m0), BVSge(m1, BVLitI(0, m1.Sort.Width())))
		if callee.Depth.Rank < cur.Depth.Rank {
			goal = Or(lt, And(Eq(m1, m0), BVSge(m1, BVLitI(0, m1.Sort.Width()))))
		} else {
			goal = lt
		}
	}
	m.emit(c, "variant", "depth:"+cur.Depth.Label+":"+callee.Key, cur.Depth.Props, goal, m.site(call), cur.Depth.Src)
}

func (m *Machine) measureObligation(c *Config, call ssa.CallInstruction, fc *FuncContract, calleeEnv *Env) {
	me := fc.Measure
	entryEnv := m.baseEnv(c)
	entryEnv.cur = m.cur.old
	evalT := func(env *Env, x *Expr) (Term, bool) {
		if x == nil {
			return Term{}, false
		}
		cv, err := m.eval(env, x)
		if err != nil {
			m.errs = append(m.errs, "measure: "+err.Error())
			return Term{}, false
		}
		t, ok := cv.V.(Term)
		return t, ok && t.Sort.IsBV()
	}
	var goal Term = TFalse
	g0, okg0 := evalT(entryEnv, me.Grows)
	g1, okg1 := evalT(calleeEnv, me.Grows)
	s0, oks0 := evalT(entryEnv, me.Shrinks)
	s1, oks1 := evalT(calleeEnv, me.Shrinks)
	switch {
	case okg0 && okg1 && oks0 && oks1:
		goal = Or(BVSgt(g1, g0), And(Eq(g1, g0), BVSlt(s1, s0), BVSge(s1, BVLitI(0, s1.Sort.Width()))))
	case okg0 && okg1:
		goal = BVSgt(g1, g0)
	case oks0 && oks1:
		goal = And(BVSlt(s1, s0), BVSge(s1, BVLitI(0, s1.Sort.Width())))
	}
	m.emit(c, "variant", "recursion:"+me.Label, me.Props, goal, m.site(call), me.Src)
}
