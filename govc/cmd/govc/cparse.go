package main

// Contract language: file format and expression parser.
//
//   //@ func <ssa function key>
//   //@   requires <expr>
//   //@   let <name> = <expr>
//   //@   ensures [C07,C03:label] <expr>
//   //@   assigns <loc>, <loc>
//   //@   loop <N> invariant [label] <expr>
//   //@   loop <N> decreases <expr>
//   //@   trusted <text>
//   //@ lemma [C07:label] <expr>
//
// Expressions use Go operator syntax extended with ==> and <==>, @ghost names,
// old(e), forall x T :: e.  A trailing backslash continues a clause on the
// next //@ line.

import (
	"bufio"
	"fmt"
	"math/big"
	"os"
	"strconv"
	"strings"
	"unicode"
)

type Expr struct {
	Op   string // ident, ghost, int, str, char, call, sel, index, slice, unary ops, binary ops, forall, exists
	Name string
	Lit  *big.Int
	Args []*Expr
	Pos  int
	// quantifier
	BVar  string
	BType string
}

func (e *Expr) String() string {
	switch e.Op {
	case "ident", "ghost":
		return e.Name
	case "int":
		return e.Lit.String()
	case "str":
		return strconv.Quote(e.Name)
	case "call":
		var as []string
		for _, a := range e.Args[1:] {
			as = append(as, a.String())
		}
		return e.Args[0].String() + "(" + strings.Join(as, ", ") + ")"
	case "sel":
		return e.Args[0].String() + "." + e.Name
	case "index":
		return e.Args[0].String() + "[" + e.Args[1].String() + "]"
	case "forall", "exists":
		return e.Op + " " + e.BVar + " " + e.BType + " :: " + e.Args[0].String()
	}
	if len(e.Args) == 1 {
		return e.Op + e.Args[0].String()
	}
	if len(e.Args) == 2 {
		return "(" + e.Args[0].String() + " " + e.Op + " " + e.Args[1].String() + ")"
	}
	return e.Op
}

type Clause struct {
	Kind   string // requires, ensures, invariant, decreases, lemma
	Label  string
	Props  []string
	Expr   *Expr
	Src    string
	Loop   int
	Line   int
	Region string // for known findings: residual region (filled by engine)
}

// rsetGroup: ghosts that describe the last reflect setter; assigning @rset assigns them too
var rsetGroup = []string{"@lastsetk", "@lastseti", "@lastsetf", "@lastsetb", "@lastsets"}

type FuncContract struct {
	Key          string
	Requires     []*Clause
	Ensures      []*Clause
	Lets         map[string]*Expr
	LetOrder     []string
	Assigns      []string
	HasAssigns   bool
	Loops        map[int]*LoopContract
	Trusted      string
	Line         int
	Pure         bool
	Config       []string
	Covers       string
	NoLoops      bool
	Sets         []GhostSet
	Summary      []GhostSet
	Proves       []*Clause
	Token        *Expr
	Defines      *Expr
	Measure      *Measure
	Depth        *DepthClause
	AtCalls      []*AtCall
	MayPanic     string
	CallsOnly    []string
	HasCallsOnly bool
}

// DepthClause: well-founded measure of a group of mutually recursive functions.  At every call from one
// member to another, (measure, rank) decreases lexicographically: the callee's measure (over its arguments, in the
// state of the call) is smaller than the caller's at its entry, or equal with a smaller rank.
type DepthClause struct {
	Label string
	Props []string
	Rank  int
	Expr  *Expr
	Src   string
}

// AtCall: an assertion at every call of the named callee in the body of the function under contract
// (a checked program-point assertion; callers never assume it).
type AtCall struct {
	Callee string
	Clause *Clause
}

type Measure struct {
	Grows, Shrinks *Expr
	Label          string
	Props          []string
	Src            string
}

type GhostSet struct {
	Ghost string
	Expr  *Expr
}

type LoopContract struct {
	Invariants []*Clause
	Decreases  []*Clause
	Assigns    []string
}

type ContractFile struct {
	Funcs  map[string]*FuncContract
	Order  []string
	Lemmas []*Clause
	Pkg    *PkgContract
}

// PkgContract: package-level frame (C12 F1, C17 P4).
type PkgContract struct {
	ReadOnly         map[string]bool     // package-level variables that may be read (never written) after init
	InitOnly         map[string]bool     // functions that run at init / configuration time only
	FieldWriters     map[string][]string // Type.field -> functions allowed to store to it
	FieldWriterProps map[string][]string
	ReadOnlyUses     map[string]bool // callees a read-only global may be passed to
	RecoverPoints    []string        // entry points that must recover from panics (C14)
	DecodeEntries    []string        // documented decode entry points: no reflective panic may escape them (C14)
	PointerFields    []string        // Type.field that must have a pointer type (an address kept as a key keeps its object alive)
	Line             int
}

func parseContractFile(path string) (*ContractFile, error) {
	f, err := os.Open(path)
	if err != nil {
		return nil, err
	}
	defer f.Close()
	cf := &ContractFile{Funcs: map[string]*FuncContract{}}
	var cur *FuncContract
	sc := bufio.NewScanner(f)
	sc.Buffer(make([]byte, 1<<20), 1<<20)
	lineNo := 0
	var pending string
	var pendingLine int
	inPkg := false
	for sc.Scan() {
		lineNo++
		line := strings.TrimSpace(sc.Text())
		if !strings.HasPrefix(line, "//@") {
			continue
		}
		body := strings.TrimSpace(strings.TrimPrefix(line, "//@"))
		if body == "" {
			continue
		}
		if pending != "" {
			body = pending + " " + body
		} else {
			pendingLine = lineNo
		}
		if strings.HasSuffix(body, "\\") {
			pending = strings.TrimSpace(strings.TrimSuffix(body, "\\"))
			continue
		}
		pending = ""
		ln := pendingLine
		word, rest := splitWord(body)
		if inPkg && word != "func" && word != "lemma" && word != "package" {
			if err := cf.Pkg.add(word, rest); err != nil {
				return nil, fmt.Errorf("%s:%d: %v", path, ln, err)
			}
			continue
		}
		inPkg = false
		switch word {
		case "package":
			if cf.Pkg == nil {
				cf.Pkg = &PkgContract{ReadOnly: map[string]bool{}, InitOnly: map[string]bool{}, FieldWriters: map[string][]string{}, ReadOnlyUses: map[string]bool{}, Line: ln}
			}
			inPkg = true
			cur = nil
		case "func":
			cur = &FuncContract{Key: strings.TrimSpace(rest), Lets: map[string]*Expr{}, Loops: map[int]*LoopContract{}, Line: ln}
			if _, dup := cf.Funcs[cur.Key]; dup {
				return nil, fmt.Errorf("%s:%d: duplicate contract for %s", path, ln, cur.Key)
			}
			cf.Funcs[cur.Key] = cur
			cf.Order = append(cf.Order, cur.Key)
		case "lemma":
			c, err := parseClause("lemma", rest, ln)
			if err != nil {
				return nil, fmt.Errorf("%s:%d: %v", path, ln, err)
			}
			cf.Lemmas = append(cf.Lemmas, c)
		default:
			if cur == nil {
				return nil, fmt.Errorf("%s:%d: clause outside func block: %s", path, ln, body)
			}
			if err := cur.addClause(word, rest, ln); err != nil {
				return nil, fmt.Errorf("%s:%d: %v", path, ln, err)
			}
		}
	}
	// implicit clause: a function that moves the read position never moves it backwards
	// (checked on the function like any other postcondition, assumed by its callers; the
	// loops of such a function carry it as an invariant)
	for _, key := range cf.Order {
		fc := cf.Funcs[key]
		moves := false
		for _, a := range fc.Assigns {
			if a == "@pos" {
				moves = true
			}
		}
		if !moves || fc.Trusted != "" {
			continue
		}
		if err := fc.addClause("ensures", "[C06,C14:pos-monotone] @pos >= old(@pos)", fc.Line); err != nil {
			return nil, err
		}
		for n := range fc.Loops {
			if err := fc.addClause("loop", fmt.Sprintf("%d invariant [C06,C14:pos-monotone] @pos >= old(@pos)", n), fc.Line); err != nil {
				return nil, err
			}
		}
	}
	return cf, sc.Err()
}

func splitWord(s string) (string, string) {
	s = strings.TrimSpace(s)
	i := strings.IndexFunc(s, unicode.IsSpace)
	if i < 0 {
		return s, ""
	}
	return s[:i], strings.TrimSpace(s[i:])
}

func (fc *FuncContract) addClause(word, rest string, ln int) error {
	switch word {
	case "requires", "ensures", "proves":
		c, err := parseClause(word, rest, ln)
		if err != nil {
			return err
		}
		switch word {
		case "requires":
			fc.Requires = append(fc.Requires, c)
		case "ensures":
			fc.Ensures = append(fc.Ensures, c)
		default:
			// proves: checked on the function itself, not assumed by callers (callers see the summary)
			c.Kind = "ensures"
			fc.Proves = append(fc.Proves, c)
		}
	case "summary":
		i := strings.Index(rest, "=")
		if i < 0 {
			return fmt.Errorf("summary @ghost = expr")
		}
		e, err := parseExpr(rest[i+1:])
		if err != nil {
			return err
		}
		fc.Summary = append(fc.Summary, GhostSet{Ghost: strings.TrimSpace(rest[:i]), Expr: e})
	case "token":
		e, err := parseExpr(rest)
		if err != nil {
			return err
		}
		fc.Token = e
	case "defines":
		e, err := parseExpr(rest)
		if err != nil {
			return err
		}
		fc.Defines = e
	case "let":
		i := strings.Index(rest, "=")
		if i < 0 {
			return fmt.Errorf("let without =")
		}
		name := strings.TrimSpace(rest[:i])
		e, err := parseExpr(rest[i+1:])
		if err != nil {
			return err
		}
		fc.Lets[name] = e
		fc.LetOrder = append(fc.LetOrder, name)
	case "assigns":
		fc.HasAssigns = true
		for _, l := range strings.Split(rest, ",") {
			if l = strings.TrimSpace(l); l != "" && l != "nothing" {
				fc.Assigns = append(fc.Assigns, l)
				if l == "@rset" {
					fc.Assigns = append(fc.Assigns, rsetGroup...)
				}
				if l == "@declared" {
					// the two ghosts of a chunk header (declared length, tag) go together
					fc.Assigns = append(fc.Assigns, "@chunktag")
				}
			}
		}
	case "config":
		for _, l := range strings.Split(rest, ",") {
			if l = strings.TrimSpace(l); l != "" {
				fc.Config = append(fc.Config, l)
			}
		}
	case "sets":
		i := strings.Index(rest, "=")
		if i < 0 {
			return fmt.Errorf("sets @ghost = expr")
		}
		e, err := parseExpr(rest[i+1:])
		if err != nil {
			return err
		}
		fc.Sets = append(fc.Sets, GhostSet{Ghost: strings.TrimSpace(rest[:i]), Expr: e})
	case "measure":
		// measure [tags] grows <expr> then shrinks <expr>   (either part optional)
		me := &Measure{Src: rest}
		if strings.HasPrefix(rest, "[") {
			j := strings.Index(rest, "]")
			tag := rest[1:j]
			rest = strings.TrimSpace(rest[j+1:])
			k := strings.LastIndex(tag, ":")
			for _, p := range strings.Split(tag[:k], ",") {
				me.Props = append(me.Props, strings.TrimSpace(p))
			}
			me.Label = strings.TrimSpace(tag[k+1:])
		}
		parts := strings.SplitN(rest, " then ", 2)
		for _, part := range parts {
			part = strings.TrimSpace(part)
			var err error
			switch {
			case strings.HasPrefix(part, "grows "):
				me.Grows, err = parseExpr(strings.TrimPrefix(part, "grows "))
			case strings.HasPrefix(part, "shrinks "):
				me.Shrinks, err = parseExpr(strings.TrimPrefix(part, "shrinks "))
			default:
				err = fmt.Errorf("measure: expected grows/shrinks")
			}
			if err != nil {
				return err
			}
		}
		fc.Measure = me
	case "atcall":
		// atcall <callee key> [tags:label] <expr>
		i := strings.Index(rest, "[")
		if i < 0 {
			return fmt.Errorf("atcall <callee> [tags:label] <expr>")
		}
		c, err := parseClause("ensures", rest[i:], ln)
		if err != nil {
			return err
		}
		fc.AtCalls = append(fc.AtCalls, &AtCall{Callee: strings.TrimSpace(rest[:i]), Clause: c})
	case "depth":
		// depth [tags:label] rank N measure <expr>
		dc := &DepthClause{Src: rest}
		if strings.HasPrefix(rest, "[") {
			j := strings.Index(rest, "]")
			tag := rest[1:j]
			rest = strings.TrimSpace(rest[j+1:])
			k := strings.LastIndex(tag, ":")
			for _, p := range strings.Split(tag[:k], ",") {
				dc.Props = append(dc.Props, strings.TrimSpace(p))
			}
			dc.Label = strings.TrimSpace(tag[k+1:])
		}
		f := strings.Fields(rest)
		if len(f) < 4 || f[0] != "rank" || f[2] != "measure" {
			return fmt.Errorf("depth [tags:label] rank N measure <expr>")
		}
		n, err := strconv.Atoi(f[1])
		if err != nil {
			return err
		}
		dc.Rank = n
		e, err := parseExpr(strings.TrimSpace(rest[strings.Index(rest, "measure")+len("measure"):]))
		if err != nil {
			return err
		}
		dc.Expr = e
		fc.Depth = dc
	case "maypanic":
		fc.MayPanic = rest
		if fc.MayPanic == "" {
			fc.MayPanic = "unspecified"
		}
	case "noloops":
		fc.NoLoops = true
	case "callsonly":
		fc.HasCallsOnly = true
		for _, l := range strings.Split(rest, ",") {
			if l = strings.TrimSpace(l); l != "" && l != "nothing" {
				fc.CallsOnly = append(fc.CallsOnly, l)
			}
		}
	case "covers":
		fc.Covers = strings.TrimSpace(rest)
	case "pure":
		fc.Pure = true
		fc.HasAssigns = true
	case "trusted":
		fc.Trusted = rest
		if fc.Trusted == "" {
			fc.Trusted = "trusted"
		}
	case "loop":
		ns, rest2 := splitWord(rest)
		n, err := strconv.Atoi(ns)
		if err != nil {
			return fmt.Errorf("loop ordinal: %v", err)
		}
		lc := fc.Loops[n]
		if lc == nil {
			lc = &LoopContract{}
			fc.Loops[n] = lc
		}
		kind, rest3 := splitWord(rest2)
		switch kind {
		case "invariant", "decreases":
			c, err := parseClause(kind, rest3, ln)
			if err != nil {
				return err
			}
			c.Loop = n
			if kind == "invariant" {
				lc.Invariants = append(lc.Invariants, c)
			} else {
				lc.Decreases = append(lc.Decreases, c)
			}
		case "assigns":
			for _, l := range strings.Split(rest3, ",") {
				if l = strings.TrimSpace(l); l != "" {
					lc.Assigns = append(lc.Assigns, l)
					if l == "@rset" {
						lc.Assigns = append(lc.Assigns, rsetGroup...)
					}
					if l == "@declared" {
						lc.Assigns = append(lc.Assigns, "@chunktag")
					}
				}
			}
		default:
			return fmt.Errorf("unknown loop clause %q", kind)
		}
	default:
		return fmt.Errorf("unknown clause %q", word)
	}
	return nil
}

func parseClause(kind, rest string, ln int) (*Clause, error) {
	c := &Clause{Kind: kind, Line: ln}
	rest = strings.TrimSpace(rest)
	if strings.HasPrefix(rest, "[") {
		j := strings.Index(rest, "]")
		if j < 0 {
			return nil, fmt.Errorf("unterminated tag")
		}
		tag := rest[1:j]
		rest = strings.TrimSpace(rest[j+1:])
		k := strings.LastIndex(tag, ":")
		if k < 0 {
			c.Label = strings.TrimSpace(tag)
		} else {
			for _, p := range strings.Split(tag[:k], ",") {
				if p = strings.TrimSpace(p); p != "" {
					c.Props = append(c.Props, p)
				}
			}
			c.Label = strings.TrimSpace(tag[k+1:])
		}
	}
	e, err := parseExpr(rest)
	if err != nil {
		return nil, fmt.Errorf("%v in %q", err, rest)
	}
	c.Expr = e
	c.Src = rest
	return c, nil
}

// ---------------- expression parser (Pratt) ----------------

type ctoken struct {
	kind string // id, int, str, char, op, eof
	text string
	pos  int
}

func lex(s string) ([]ctoken, error) {
	var toks []ctoken
	i := 0
	for i < len(s) {
		c := s[i]
		switch {
		case c == ' ' || c == '\t':
			i++
		case c == '@' || c == '_' || unicode.IsLetter(rune(c)):
			j := i + 1
			for j < len(s) && (s[j] == '_' || s[j] == '$' || unicode.IsLetter(rune(s[j])) || unicode.IsDigit(rune(s[j]))) {
				j++
			}
			toks = append(toks, ctoken{"id", s[i:j], i})
			i = j
		case unicode.IsDigit(rune(c)):
			j := i + 1
			for j < len(s) && (unicode.IsDigit(rune(s[j])) || unicode.IsLetter(rune(s[j])) || s[j] == '_') {
				j++
			}
			toks = append(toks, ctoken{"int", s[i:j], i})
			i = j
		case c == '"':
			j := i + 1
			for j < len(s) && s[j] != '"' {
				if s[j] == '\\' {
					j++
				}
				j++
			}
			if j >= len(s) {
				return nil, fmt.Errorf("unterminated string")
			}
			u, err := strconv.Unquote(s[i : j+1])
			if err != nil {
				return nil, err
			}
			toks = append(toks, ctoken{"str", u, i})
			i = j + 1
		case c == '\'':
			j := i + 1
			for j < len(s) && s[j] != '\'' {
				if s[j] == '\\' {
					j++
				}
				j++
			}
			if j >= len(s) {
				return nil, fmt.Errorf("unterminated char")
			}
			r, _, _, err := strconv.UnquoteChar(s[i+1:j], '\'')
			if err != nil {
				return nil, err
			}
			toks = append(toks, ctoken{"int", strconv.Itoa(int(r)), i})
			i = j + 1
		default:
			ops := []string{"<==>", "==>", "::", "<<", ">>", "&&", "||", "==", "!=", "<=", ">=", "&^"}
			matched := false
			for _, op := range ops {
				if strings.HasPrefix(s[i:], op) {
					toks = append(toks, ctoken{"op", op, i})
					i += len(op)
					matched = true
					break
				}
			}
			if !matched {
				toks = append(toks, ctoken{"op", string(c), i})
				i++
			}
		}
	}
	toks = append(toks, ctoken{"eof", "", len(s)})
	return toks, nil
}

type parser struct {
	toks []ctoken
	i    int
}

func parseExpr(s string) (*Expr, error) {
	toks, err := lex(s)
	if err != nil {
		return nil, err
	}
	p := &parser{toks: toks}
	e, err := p.expr(0)
	if err != nil {
		return nil, err
	}
	if p.peek().kind != "eof" {
		return nil, fmt.Errorf("unexpected %q at %d", p.peek().text, p.peek().pos)
	}
	return e, nil
}

func (p *parser) peek() ctoken { return p.toks[p.i] }
func (p *parser) next() ctoken { t := p.toks[p.i]; p.i++; return t }
func (p *parser) accept(op string) bool {
	if t := p.peek(); t.kind == "op" && t.text == op {
		p.i++
		return true
	}
	return false
}
func (p *parser) expect(op string) error {
	if !p.accept(op) {
		return fmt.Errorf("expected %q at %d, got %q", op, p.peek().pos, p.peek().text)
	}
	return nil
}

var binPrec = map[string]int{
	"<==>": 1, "==>": 2, "||": 3, "&&": 4,
	"==": 5, "!=": 5, "<": 5, "<=": 5, ">": 5, ">=": 5,
	"+": 6, "-": 6, "|": 6, "^": 6,
	"*": 7, "/": 7, "%": 7, "<<": 7, ">>": 7, "&": 7, "&^": 7,
}

func (p *parser) expr(minPrec int) (*Expr, error) {
	lhs, err := p.unary()
	if err != nil {
		return nil, err
	}
	for {
		t := p.peek()
		if t.kind != "op" {
			break
		}
		prec, ok := binPrec[t.text]
		if !ok || prec < minPrec {
			break
		}
		p.next()
		nextMin := prec + 1
		if t.text == "==>" { // right associative
			nextMin = prec
		}
		rhs, err := p.expr(nextMin)
		if err != nil {
			return nil, err
		}
		lhs = &Expr{Op: t.text, Args: []*Expr{lhs, rhs}, Pos: t.pos}
	}
	return lhs, nil
}

func (p *parser) unary() (*Expr, error) {
	t := p.peek()
	if t.kind == "op" && (t.text == "!" || t.text == "-" || t.text == "^") {
		p.next()
		x, err := p.unary()
		if err != nil {
			return nil, err
		}
		op := map[string]string{"!": "!", "-": "neg", "^": "bnot"}[t.text]
		return &Expr{Op: op, Args: []*Expr{x}, Pos: t.pos}, nil
	}
	return p.postfix()
}

func (p *parser) postfix() (*Expr, error) {
	x, err := p.primary()
	if err != nil {
		return nil, err
	}
	for {
		switch {
		case p.accept("."):
			t := p.next()
			if t.kind != "id" {
				return nil, fmt.Errorf("expected field name at %d", t.pos)
			}
			x = &Expr{Op: "sel", Name: t.text, Args: []*Expr{x}, Pos: t.pos}
		case p.accept("("):
			args := []*Expr{x}
			if !p.accept(")") {
				for {
					a, err := p.expr(0)
					if err != nil {
						return nil, err
					}
					args = append(args, a)
					if p.accept(")") {
						break
					}
					if err := p.expect(","); err != nil {
						return nil, err
					}
				}
			}
			x = &Expr{Op: "call", Args: args, Pos: x.Pos}
		case p.accept("["):
			var lo, hi *Expr
			if !(p.peek().kind == "op" && p.peek().text == ":") {
				lo, err = p.expr(0)
				if err != nil {
					return nil, err
				}
			}
			if p.accept(":") {
				if !(p.peek().kind == "op" && p.peek().text == "]") {
					hi, err = p.expr(0)
					if err != nil {
						return nil, err
					}
				}
				if err := p.expect("]"); err != nil {
					return nil, err
				}
				x = &Expr{Op: "slice", Args: []*Expr{x, lo, hi}, Pos: x.Pos}
			} else {
				if err := p.expect("]"); err != nil {
					return nil, err
				}
				x = &Expr{Op: "index", Args: []*Expr{x, lo}, Pos: x.Pos}
			}
		default:
			return x, nil
		}
	}
}

func (p *parser) primary() (*Expr, error) {
	t := p.next()
	switch t.kind {
	case "int":
		v, ok := new(big.Int).SetString(strings.ReplaceAll(t.text, "_", ""), 0)
		if !ok {
			return nil, fmt.Errorf("bad integer %q", t.text)
		}
		return &Expr{Op: "int", Lit: v, Pos: t.pos}, nil
	case "str":
		return &Expr{Op: "str", Name: t.text, Pos: t.pos}, nil
	case "id":
		if t.text == "forall" || t.text == "exists" {
			v := p.next()
			ty := p.next()
			if v.kind != "id" || ty.kind != "id" {
				return nil, fmt.Errorf("quantifier syntax: forall x T :: e")
			}
			if err := p.expect("::"); err != nil {
				return nil, err
			}
			body, err := p.expr(0)
			if err != nil {
				return nil, err
			}
			return &Expr{Op: t.text, BVar: v.text, BType: ty.text, Args: []*Expr{body}, Pos: t.pos}, nil
		}
		if strings.HasPrefix(t.text, "@") {
			return &Expr{Op: "ghost", Name: t.text, Pos: t.pos}, nil
		}
		if t.text == "true" || t.text == "false" {
			return &Expr{Op: "bool", Name: t.text, Pos: t.pos}, nil
		}
		return &Expr{Op: "ident", Name: t.text, Pos: t.pos}, nil
	case "op":
		if t.text == "(" {
			e, err := p.expr(0)
			if err != nil {
				return nil, err
			}
			if err := p.expect(")"); err != nil {
				return nil, err
			}
			return e, nil
		}
	}
	return nil, fmt.Errorf("unexpected %q at %d", t.text, t.pos)
}

func (pc *PkgContract) add(word, rest string) error {
	items := func() []string {
		var out []string
		for _, l := range strings.Split(rest, ",") {
			if l = strings.TrimSpace(l); l != "" {
				out = append(out, l)
			}
		}
		return out
	}
	switch word {
	case "readonly":
		for _, i := range items() {
			pc.ReadOnly[i] = true
		}
	case "initonly":
		for _, i := range items() {
			pc.InitOnly[i] = true
		}
	case "readonlyuse":
		for _, i := range items() {
			pc.ReadOnlyUses[i] = true
		}
	case "recoverpoints":
		pc.RecoverPoints = append(pc.RecoverPoints, items()...)
	case "decodeentries":
		pc.DecodeEntries = append(pc.DecodeEntries, items()...)
	case "pointerfields":
		pc.PointerFields = append(pc.PointerFields, items()...)
	case "fieldwriters":
		// fieldwriters [C04,C05] Type.field fn...   (function keys contain no blanks; default tag C17)
		props := []string{"C17"}
		if strings.HasPrefix(rest, "[") {
			j := strings.Index(rest, "]")
			props = nil
			for _, p := range strings.Split(rest[1:j], ",") {
				props = append(props, strings.TrimSpace(p))
			}
			rest = strings.TrimSpace(rest[j+1:])
		}
		f := strings.Fields(rest)
		if len(f) < 2 {
			return fmt.Errorf("fieldwriters [tags] Type.field fn...")
		}
		pc.FieldWriters[f[0]] = append(pc.FieldWriters[f[0]], f[1:]...)
		if pc.FieldWriterProps == nil {
			pc.FieldWriterProps = map[string][]string{}
		}
		pc.FieldWriterProps[f[0]] = props
	default:
		return fmt.Errorf("unknown package clause %q", word)
	}
	return nil
}
