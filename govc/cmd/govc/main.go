package main

import (
	"flag"
	"fmt"
	"os"
	"path/filepath"
	"sort"
	"strings"

	"golang.org/x/tools/go/packages"
	"golang.org/x/tools/go/ssa"
	"golang.org/x/tools/go/ssa/ssautil"
)

type Loaded struct {
	prog *ssa.Program
	pkg  *ssa.Package
	pp   *packages.Package
}

func loadRepo(dir string) (*Loaded, error) {
	cfg := &packages.Config{
		Mode: packages.NeedName | packages.NeedFiles | packages.NeedCompiledGoFiles | packages.NeedImports |
			packages.NeedTypes | packages.NeedTypesSizes | packages.NeedSyntax | packages.NeedTypesInfo | packages.NeedDeps,
		Dir:        dir,
		BuildFlags: []string{"-tags=verif"},
		Env:        append(os.Environ(), "GOFLAGS=-mod=mod", "GOPROXY=off", "GOSUMDB=off", "GOTOOLCHAIN=local"),
	}
	pkgs, err := packages.Load(cfg, ".")
	if err != nil {
		return nil, err
	}
	if len(pkgs) != 1 {
		return nil, fmt.Errorf("expected one package, got %d", len(pkgs))
	}
	if len(pkgs[0].Errors) > 0 {
		return nil, fmt.Errorf("package errors: %v", pkgs[0].Errors)
	}
	prog, spkgs := ssautil.Packages(pkgs, ssa.GlobalDebug|ssa.InstantiateGenerics)
	if spkgs[0] == nil {
		return nil, fmt.Errorf("no SSA package")
	}
	prog.Build()
	return &Loaded{prog: prog, pkg: spkgs[0], pp: pkgs[0]}, nil
}

func preludeFiles(verifDir string) []string {
	fs, _ := filepath.Glob(filepath.Join(verifDir, "spec", "*.smt2"))
	sort.Strings(fs)
	return fs
}

func main() {
	if len(os.Args) < 2 {
		fmt.Fprintln(os.Stderr, "usage: govc <func|check|selftest> ...")
		os.Exit(2)
	}
	switch os.Args[1] {
	case "func":
		cmdFunc(os.Args[2:])
	case "check":
		cmdCheck(os.Args[2:])
	default:
		fmt.Fprintln(os.Stderr, "unknown command", os.Args[1])
		os.Exit(2)
	}
}

type session struct {
	ld   *Loaded
	m    *Machine
	smt  *SMT
	cf   *ContractFile
	repo string
	vdir string
}

func openSession(repo, vdir, tier string, seed int) (*session, error) {
	ld, err := loadRepo(repo)
	if err != nil {
		return nil, err
	}
	files, _ := filepath.Glob(filepath.Join(repo, "zz_verif_*.go"))
	sort.Strings(files)
	var cf *ContractFile
	for _, f := range files {
		one, err := parseContractFile(f)
		if err != nil {
			return nil, err
		}
		if cf == nil {
			cf = one
			continue
		}
		for _, k := range one.Order {
			if _, dup := cf.Funcs[k]; dup {
				return nil, fmt.Errorf("%s: duplicate contract for %s", f, k)
			}
			cf.Funcs[k] = one.Funcs[k]
			cf.Order = append(cf.Order, k)
		}
		cf.Lemmas = append(cf.Lemmas, one.Lemmas...)
		if one.Pkg != nil {
			cf.Pkg = one.Pkg
		}
	}
	if cf == nil {
		return nil, fmt.Errorf("no contract files (zz_verif_*.go) in %s", repo)
	}
	pre, err := loadPrelude(preludeFiles(vdir))
	if err != nil {
		return nil, err
	}
	m := newMachine(ld.prog, ld.pkg, cf, pre)
	m.evalInit()
	smt, err := newSMT(pre, tier, seed)
	if err != nil {
		return nil, err
	}
	return &session{ld: ld, m: m, smt: smt, cf: cf, repo: repo, vdir: vdir}, nil
}

// cmdFunc: verify one function and print every obligation (debugging aid).
func cmdFunc(args []string) {
	fs := flag.NewFlagSet("func", flag.ExitOnError)
	repo := fs.String("repo", "/repo", "")
	vdir := fs.String("verif", "/verif", "")
	key := fs.String("key", "", "function key")
	tier := fs.String("tier", "quick", "")
	safety := fs.Bool("safety", true, "")
	dump := fs.Bool("dump", false, "print failing queries")
	keep := fs.String("keep", "", "directory to keep non-discharged queries in")
	alloc := fs.Bool("alloc", false, "emit allocation-bound obligations (C14)")
	fs.Parse(args)
	s, err := openSession(*repo, *vdir, *tier, 0)
	if err != nil {
		fmt.Fprintln(os.Stderr, "error:", err)
		os.Exit(2)
	}
	defer s.smt.cleanup()
	keys := strings.Split(*key, ",")
	if *key == "" {
		keys = s.cf.Order
	}
	bad := 0
	for _, k := range keys {
		fc := s.cf.Funcs[k]
		rep := s.m.verifyFunction(k, fc, verifyOpts{safety: *safety, safetyProp: []string{"C14"}, allocCheck: *alloc})
		s.m.solveAll(s.smt, rep.Obligs, 16)
		fmt.Printf("== %s: paths=%d obligations=%d", k, rep.Paths, len(rep.Obligs))
		if rep.Unsup != "" {
			fmt.Printf(" UNSUPPORTED: %s", rep.Unsup)
		}
		fmt.Println()
		for _, e := range rep.Errors {
			fmt.Println("   contract error:", e)
		}
		for _, st := range rep.Stale {
			fmt.Println("   ", st)
		}
		cnt := map[string]int{}
		for _, o := range rep.Obligs {
			status := o.Res.Status
			if o.ExpectSat {
				if status == "sat" {
					status = "ok(sat)"
				} else {
					status = "VACUOUS(" + status + ")"
				}
			}
			cnt[status]++
			if kl := os.Getenv("GOVC_KEEPLABEL"); kl != "" && o.Label == kl && *keep != "" {
				os.MkdirAll(*keep, 0o755)
				os.WriteFile(filepath.Join(*keep, sanitize(fmt.Sprintf("%s-p%d-%s", o.Name(), o.Path, status))+".smt2"), []byte(s.m.fullQuery(s.smt, o)), 0o644)
			}
			if status != "unsat" && status != "ok(sat)" {
				bad++
				fmt.Printf("   %-10s %s path=%d site=%s abstract=%v by=%s\n", status, o.Name(), o.Path, o.Site, o.Abstract, o.Res.Backend)
				if len(o.Res.Model) > 0 {
					var ks []string
					for k := range o.Res.Model {
						ks = append(ks, k)
					}
					sort.Strings(ks)
					for _, k := range ks {
						fmt.Printf("        %s = %s\n", k, o.Res.Model[k])
					}
				}
				if *dump {
					fmt.Println(s.m.fullQuery(s.smt, o))
				}
				if *keep != "" {
					os.MkdirAll(*keep, 0o755)
					os.WriteFile(filepath.Join(*keep, sanitize(fmt.Sprintf("%s-p%d", o.Name(), o.Path))+".smt2"), []byte(s.m.fullQuery(s.smt, o)), 0o644)
				}
			}
		}
		if os.Getenv("GOVC_BYNAME") != "" {
			byName := map[string]int{}
			byBack := map[string]int{}
			for _, o := range rep.Obligs {
				byName[o.Name()]++
				byBack[o.Name()+" "+o.Res.Backend]++
			}
			var ns []string
			for n := range byBack {
				ns = append(ns, n)
			}
			sort.Strings(ns)
			for _, n := range ns {
				fmt.Printf("   %6d %s\n", byBack[n], n)
			}
		}
		fmt.Printf("   summary: %v solver-runs=%d solver-s=%.1f\n", cnt, s.smt.queries, s.smt.solverS)
	}
	s.smt.cleanup()
	if bad > 0 {
		os.Exit(1)
	}
}
