package main

// SMT back ends: query construction, solver race (z3 5.1.0, cvc5 1.0.3, z3 4.8.12), model extraction.

import (
	"bytes"
	"context"
	"crypto/sha1"
	"fmt"
	"os"
	"os/exec"
	"path/filepath"
	"regexp"
	"sort"
	"strings"
	"sync"
	"time"
)

type SolveResult struct {
	Status   string // unsat, sat, unknown
	Backend  string
	Seconds  float64
	Model    map[string]string
	Raw      string
	Agree    []string // thorough: per-backend answers
	QueryLen int
	File     string
	Single   bool // thorough tier: exactly one back end answered unsat
	Sliced   bool // discharged from the goal-connected part of the path condition alone
}

type Solver struct {
	Name string
	Argv func(file string, timeoutS int) []string
}

var solvers = []Solver{
	{"z3-5.1.0", func(f string, t int) []string { return []string{"z3-new", fmt.Sprintf("-T:%d", t), f} }},
	{"cvc5-1.0.3", func(f string, t int) []string {
		return []string{"cvc5", fmt.Sprintf("--tlimit=%d", t*1000), "--produce-models", f}
	}},
	{"z3-4.8.12", func(f string, t int) []string { return []string{"z3", fmt.Sprintf("-T:%d", t), f} }},
}

type SMT struct {
	dir      string
	tier     string
	seed     int
	mu       sync.Mutex
	cache    map[string]*SolveResult
	byBack   map[string]int
	solverS  float64
	queries  int
	keepDir  string
	conds    []condChunk
	base     string
	timeoutQ int
	timeoutT int
	recFns   map[string]*SpecFn
	inflight map[string]chan struct{}
	single   int
}

type condChunk struct {
	sym  string
	text string
}

func newSMT(pre *Prelude, tier string, seed int) (*SMT, error) {
	dir, err := os.MkdirTemp("", "govc-")
	if err != nil {
		return nil, err
	}
	s := &SMT{dir: dir, tier: tier, seed: seed, cache: map[string]*SolveResult{}, byBack: map[string]int{}, timeoutQ: 60, timeoutT: 180}
	// split the prelude into the unconditional part and ;@when chunks
	var base strings.Builder
	var cur *condChunk
	for _, line := range strings.Split(pre.Text, "\n") {
		t := strings.TrimSpace(line)
		if strings.HasPrefix(t, ";@when ") {
			cur = &condChunk{sym: strings.TrimSpace(strings.TrimPrefix(t, ";@when "))}
			continue
		}
		if strings.HasPrefix(t, ";@end") {
			if cur != nil {
				s.conds = append(s.conds, *cur)
			}
			cur = nil
			continue
		}
		if cur != nil {
			cur.text += line + "\n"
		} else {
			base.WriteString(line)
			base.WriteByte('\n')
		}
	}
	s.base = base.String()
	s.recFns = map[string]*SpecFn{}
	for _, fn := range pre.Funcs {
		if fn.Rec {
			s.recFns[fn.Name] = fn
		}
	}
	// recursive spec functions become uninterpreted; their defining equation is
	// instantiated by the engine on the applications that occur in a query (fuel 2)
	if len(s.recFns) > 0 {
		es, err := readSExps(s.base)
		if err == nil {
			var b strings.Builder
			for _, e := range es {
				if e.IsL && len(e.List) > 0 && e.List[0].Atom == "define-fun-rec" {
					var ps []string
					for _, pr := range e.List[2].List {
						ps = append(ps, pr.List[1].String())
					}
					fmt.Fprintf(&b, "(declare-fun %s (%s) %s)\n", e.List[1].Atom, strings.Join(ps, " "), e.List[3].String())
					continue
				}
				b.WriteString(e.String())
				b.WriteByte('\n')
			}
			s.base = b.String()
		}
	}
	return s, nil
}

func (s *SMT) cleanup() { os.RemoveAll(s.dir) }

// buildQuery assembles the SMT-LIB text for "pc and not goal" (or just pc for vacuity checks).
// slicePC keeps the path-condition conjuncts that are connected to the goal through the
// symbols the engine declared (variables, havocked values, uninterpreted results), following
// the per-symbol facts as well.  Dropping assumptions is sound for a proof (unsat of the
// slice implies unsat of the whole); a slice that is not unsat decides nothing and the full
// query is asked.  Many obligations of different paths have the same slice, so the solver is
// asked once for all of them.
func (m *Machine) slicePC(o *Obligation) ([]Term, bool) {
	m.qmu.Lock()
	if m.symCache == nil {
		m.symCache = map[string][]string{}
	}
	m.qmu.Unlock()
	symsOf := func(text string) []string {
		m.qmu.Lock()
		v, ok := m.symCache[text]
		m.qmu.Unlock()
		if ok {
			return v
		}
		var out []string
		for sym := range smtSymbols(text) {
			if _, ok := m.syms.decls[sym]; ok {
				out = append(out, sym)
			}
		}
		m.qmu.Lock()
		m.symCache[text] = out
		m.qmu.Unlock()
		return out
	}
	rel := map[string]bool{}
	var work []string
	add := func(sym string) {
		if !rel[sym] {
			rel[sym] = true
			work = append(work, sym)
		}
	}
	for _, sym := range symsOf(o.Goal.S) {
		add(sym)
	}
	include := make([]bool, len(o.PC))
	pcSyms := make([][]string, len(o.PC))
	for i, p := range o.PC {
		pcSyms[i] = symsOf(p.S)
	}
	for {
		for len(work) > 0 {
			sym := work[len(work)-1]
			work = work[:len(work)-1]
			for _, f := range m.facts[sym] {
				for _, s2 := range symsOf(f.S) {
					add(s2)
				}
			}
		}
		changed := false
		for i := range o.PC {
			if include[i] {
				continue
			}
			hit := len(pcSyms[i]) == 0 // closed conjuncts (rare) are kept
			for _, sym := range pcSyms[i] {
				if rel[sym] {
					hit = true
					break
				}
			}
			if hit {
				include[i] = true
				changed = true
				for _, sym := range pcSyms[i] {
					add(sym)
				}
			}
		}
		// one hop only: conjuncts that mention a symbol of the goal (or of the facts about those
		// symbols).  A transitive closure keeps almost everything as soon as one variable is
		// shared by the whole path condition.
		_ = changed
		break
	}
	var out []Term
	for i, p := range o.PC {
		if include[i] {
			out = append(out, p)
		}
	}
	return out, len(out) < len(o.PC)
}

func (m *Machine) buildQuery(s *SMT, o *Obligation) string {
	return m.buildQueryPC(s, o, o.PC, false)
}

var freshSymRe = regexp.MustCompile(`[^\s()]+![0-9]+`)

// canonNames renames the engine's numbered symbols (x!17) in order of first occurrence, so that
// the same proof obligation reached along different paths gives the same query text (and is
// solved once).  Used for sliced queries only: their models are never read.
func canonNames(decls []string, rest string) string {
	ren := map[string]string{}
	cnt := 0
	rest = freshSymRe.ReplaceAllStringFunc(rest, func(sym string) string {
		if r, ok := ren[sym]; ok {
			return r
		}
		cnt++
		r := fmt.Sprintf("%s!c%d", sym[:strings.LastIndex(sym, "!")], cnt)
		ren[sym] = r
		return r
	})
	out := make([]string, 0, len(decls))
	for _, d := range decls {
		out = append(out, freshSymRe.ReplaceAllStringFunc(d, func(sym string) string {
			if r, ok := ren[sym]; ok {
				return r
			}
			return sym
		}))
	}
	sort.Strings(out)
	return strings.Join(out, "\n") + "\n" + rest
}

func (m *Machine) buildQueryPC(s *SMT, o *Obligation, pc []Term, canon bool) string {
	var body strings.Builder
	for _, p := range pc {
		fmt.Fprintf(&body, "(assert %s)\n", p.S)
	}
	if !o.ExpectSat {
		fmt.Fprintf(&body, "(assert (not %s))\n", o.Goal.S)
	}
	text := body.String()
	// facts: transitive closure over symbols
	var facts []string
	seen := map[string]bool{}
	all := text
	for changed := true; changed; {
		changed = false
		for sym := range smtSymbols(all) {
			if seen[sym] {
				continue
			}
			seen[sym] = true
			for _, f := range m.facts[sym] {
				line := fmt.Sprintf("(assert %s)\n", f.S)
				facts = append(facts, line)
				all += line
				changed = true
			}
		}
	}
	// unfold recursive spec functions on the applications present (two rounds)
	hasRec := false
	for name := range s.recFns {
		if strings.Contains(all, name) {
			hasRec = true
			break
		}
	}
	if hasRec {
		done := map[string]bool{}
		for round := 0; round < 2; round++ {
			es, err := readSExps(all)
			if err != nil {
				break
			}
			apps := map[string]*SExp{}
			for _, e := range es {
				findApps(e, s.recFns, apps)
			}
			var keys []string
			for k := range apps {
				if !done[k] {
					keys = append(keys, k)
				}
			}
			sort.Strings(keys)
			for _, k := range keys {
				done[k] = true
				a := apps[k]
				fn := s.recFns[a.List[0].Atom]
				sub := map[string]string{}
				for i, pn := range fn.PNames {
					sub[pn] = a.List[i+1].String()
				}
				line := fmt.Sprintf("(assert (= %s %s))\n", k, fn.Body.substitute(sub))
				facts = append(facts, line)
				all += line
			}
		}
	}
	var q strings.Builder
	q.WriteString("(set-option :produce-models true)\n(set-logic ALL)\n")
	q.WriteString(s.base)
	syms := smtSymbols(all)
	for _, cc := range s.conds {
		if o.Kind == "reach" && strings.Contains(cc.text, "forall") {
			// reachability is decided without the quantified axioms (fewer constraints: an unsat
			// answer is still conclusive, and the solver can return sat)
			continue
		}
		for _, one := range strings.Fields(cc.sym) {
			if syms[one] {
				q.WriteString(cc.text)
				break
			}
		}
	}
	if canon {
		sort.Strings(facts)
		q.WriteString(canonNames(m.syms.declsFor(all), strings.Join(facts, "")+text))
		q.WriteString("(check-sat)\n")
		return q.String()
	}
	for _, d := range m.syms.declsFor(all) {
		q.WriteString(d)
		q.WriteByte('\n')
	}
	for _, f := range facts {
		q.WriteString(f)
	}
	q.WriteString(text)
	q.WriteString("(check-sat)\n")
	if len(o.Inputs) > 0 {
		var vs []string
		for _, in := range o.Inputs {
			vs = append(vs, in.S)
		}
		fmt.Fprintf(&q, "(get-value (%s))\n", strings.Join(vs, " "))
	}
	return q.String()
}

func runSolver(sv Solver, file string, timeoutS int) (status, out string, secs float64) {
	return runSolverCtx(context.Background(), sv, file, timeoutS)
}

func runSolverCtx(parent context.Context, sv Solver, file string, timeoutS int) (status, out string, secs float64) {
	argv := sv.Argv(file, timeoutS)
	ctx, cancel := context.WithTimeout(parent, time.Duration(timeoutS+5)*time.Second)
	defer cancel()
	cmd := exec.CommandContext(ctx, argv[0], argv[1:]...)
	var buf bytes.Buffer
	cmd.Stdout = &buf
	cmd.Stderr = &buf
	t0 := time.Now()
	cmd.Run()
	secs = time.Since(t0).Seconds()
	out = buf.String()
	first := strings.TrimSpace(strings.SplitN(out, "\n", 2)[0])
	switch first {
	case "sat", "unsat":
		status = first
	default:
		status = "unknown"
		if strings.HasPrefix(first, "(error") {
			status = "error"
		}
	}
	return
}

func (s *SMT) solve(query string, name string) *SolveResult {
	h := fmt.Sprintf("%x", sha1.Sum([]byte(query)))
	for {
		s.mu.Lock()
		if r, ok := s.cache[h]; ok {
			s.mu.Unlock()
			cp := *r
			return &cp
		}
		if ch, busy := s.inflight[h]; busy {
			s.mu.Unlock()
			<-ch // another worker is solving the identical query
			continue
		}
		if s.inflight == nil {
			s.inflight = map[string]chan struct{}{}
		}
		done := make(chan struct{})
		s.inflight[h] = done
		s.mu.Unlock()
		defer func() {
			s.mu.Lock()
			delete(s.inflight, h)
			s.mu.Unlock()
			close(done)
		}()
		break
	}
	file := filepath.Join(s.dir, h[:16]+".smt2")
	os.WriteFile(file, []byte(query), 0o644)
	res := &SolveResult{Status: "unknown", QueryLen: len(query), File: file}
	if s.tier == "thorough" {
		// all three back ends on every query; none may say sat.  Once two agree on unsat the third gets 30 s more
		// (a back end that is still silent then is recorded as "no answer"); one definite unsat with the other two
		// at their timeout is accepted and counted separately.
		type ans struct {
			name, status, out string
			secs              float64
		}
		ctx, cancel := context.WithCancel(context.Background())
		ch := make(chan ans, len(solvers))
		for _, sv := range solvers {
			go func(sv Solver) {
				st, out, secs := runSolverCtx(ctx, sv, file, s.timeoutT)
				ch <- ans{sv.Name, st, out, secs}
			}(sv)
		}
		nUnsat, nSat, got := 0, 0, 0
		var satOut, satBy string
		answered := map[string]bool{}
		var grace <-chan time.Time
		t0 := time.Now()
	collect:
		for got < len(solvers) {
			select {
			case a := <-ch:
				got++
				answered[a.name] = true
				res.Agree = append(res.Agree, a.name+"="+a.status)
				switch a.status {
				case "unsat":
					nUnsat++
					if res.Backend == "" {
						res.Backend = a.name
					}
					if nUnsat == 2 && grace == nil {
						grace = time.After(30 * time.Second)
					}
				case "sat":
					nSat++
					// models are read from z3 5.1's output (the format the model reader was written against); another
					// back end's sat answer decides, and z3 5.1 gets 20 s more to deliver the model
					if satBy != "z3-5.1.0" {
						satOut, satBy = a.out, a.name
					}
					if a.name == "z3-5.1.0" || answered["z3-5.1.0"] {
						break collect
					}
					if grace == nil {
						grace = time.After(20 * time.Second)
					}
				}
			case <-grace:
				break collect
			}
		}
		cancel()
		for _, sv := range solvers {
			if !answered[sv.Name] {
				res.Agree = append(res.Agree, sv.Name+"=no answer in time")
			}
		}
		res.Seconds = time.Since(t0).Seconds()
		switch {
		case nSat > 0:
			res.Status, res.Backend, res.Raw = "sat", satBy, satOut
		case nUnsat >= 2:
			res.Status = "unsat"
		case nUnsat == 1:
			// only one back end decided (the others timed out or do not support the fragment):
			// accepted, and counted separately in the evidence
			res.Status = "unsat"
			res.Single = true
		}
	} else {
		// quick: z3 5.1 starts alone; if it has not answered after 2 s (or cannot decide) the other two back ends
		// join the race.  The first definite answer wins and the others are stopped.
		type ans struct {
			name, status, out string
		}
		ctx, cancel := context.WithCancel(context.Background())
		ch := make(chan ans, len(solvers))
		launch := func(sv Solver) {
			go func() {
				st, out, _ := runSolverCtx(ctx, sv, file, s.timeoutQ)
				ch <- ans{sv.Name, st, out}
			}()
		}
		t0 := time.Now()
		launch(solvers[0])
		pending, started := 1, 1
		timer := time.NewTimer(2 * time.Second)
		lastOut := ""
	race:
		for pending > 0 {
			select {
			case a := <-ch:
				pending--
				if a.status == "sat" || a.status == "unsat" {
					res.Status, res.Backend, res.Raw = a.status, a.name, a.out
					break race
				}
				if lastOut == "" || a.status == "error" {
					lastOut = a.out
				}
				if a.status == "error" && res.Status == "unknown" && started == len(solvers) && pending == 0 {
					// every back end rejected or gave up; report the rejection if all of them rejected
				}
				if started == 1 {
					for _, sv := range solvers[1:] {
						launch(sv)
					}
					pending += len(solvers) - 1
					started = len(solvers)
				}
			case <-timer.C:
				if started == 1 {
					for _, sv := range solvers[1:] {
						launch(sv)
					}
					pending += len(solvers) - 1
					started = len(solvers)
				}
			}
		}
		timer.Stop()
		cancel()
		res.Seconds = time.Since(t0).Seconds()
		if res.Status == "unknown" {
			res.Raw = lastOut
			if strings.HasPrefix(strings.TrimSpace(lastOut), "(error") {
				res.Status = "error"
			}
		}
	}
	if res.Status == "sat" {
		res.Model = parseGetValue(res.Raw)
	}
	s.mu.Lock()
	s.cache[h] = res
	s.queries++
	if res.Single {
		s.single++
	}
	s.solverS += res.Seconds
	if res.Backend != "" {
		s.byBack[res.Backend]++
	}
	s.mu.Unlock()
	cp := *res
	return &cp
}

// parseGetValue extracts ((term value) ...) pairs printed after "sat".
func parseGetValue(out string) map[string]string {
	m := map[string]string{}
	i := strings.Index(out, "\n")
	if i < 0 {
		return m
	}
	es, err := readSExps(out[i+1:])
	if err != nil {
		return m
	}
	for _, e := range es {
		if !e.IsL {
			continue
		}
		for _, pr := range e.List {
			if pr.IsL && len(pr.List) == 2 {
				m[pr.List[0].String()] = pr.List[1].String()
			}
		}
	}
	return m
}

// solveAll discharges obligations in parallel.
func (m *Machine) solveAll(s *SMT, obs []*Obligation, workers int) {
	m.smtRef = s
	sliced := map[*Obligation]string{}
	if m.queryOf == nil {
		m.queryOf = map[*Obligation]string{}
	}
	t0 := time.Now()
	// queries are built and solved by the workers; building only reads the machine's tables
	// (symbol declarations, facts, prelude) apart from the caches guarded by qmu.  The full
	// query of an obligation that has a slice is built only if the slice does not decide it.
	var todo []*Obligation
	for _, o := range obs {
		if o.Res == nil {
			todo = append(todo, o)
		}
	}
	nSliced := 0
	var wg sync.WaitGroup
	ch := make(chan *Obligation)
	for i := 0; i < workers; i++ {
		wg.Add(1)
		go func() {
			defer wg.Done()
			for o := range ch {
				if !o.ExpectSat && !o.Canary && os.Getenv("GOVC_NOSLICE") == "" {
					if pc, smaller := m.slicePC(o); smaller {
						qs := m.buildQueryPC(s, o, pc, true)
						m.qmu.Lock()
						nSliced++
						m.qmu.Unlock()
						if r := s.solve(qs, o.Name()); r.Status == "unsat" {
							r.Sliced = true
							o.Res = r
							continue
						}
					}
				}
				o.Res = s.solve(m.fullQuery(s, o), o.Name())
			}
		}()
	}
	for _, o := range todo {
		ch <- o
	}
	close(ch)
	wg.Wait()
	_ = sliced
	if os.Getenv("GOVC_TIMING") != "" {
		fmt.Fprintf(os.Stderr, "TIMING solveAll: %d obligations, %d sliced, build %.1fs, total %.1fs\n", len(todo), nSliced, 0.0, time.Since(t0).Seconds())
	}
}

func (m *Machine) fullQueryOK(s *SMT, o *Obligation) (string, bool) {
	return m.fullQuery(s, o), true
}

// fullQuery returns (building it on first use) the query with the complete path condition.
func (m *Machine) fullQuery(s *SMT, o *Obligation) string {
	m.qmu.Lock()
	q, ok := m.queryOf[o]
	m.qmu.Unlock()
	if ok {
		return q
	}
	q = m.buildQuery(s, o)
	m.qmu.Lock()
	m.queryOf[o] = q
	m.qmu.Unlock()
	return q
}
