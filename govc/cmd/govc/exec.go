package main

// Symbolic executor over go/ssa: explicit path enumeration, loops cut at
// invariants, calls resolved by contract / inlining / trusted external model.

import (
	"fmt"
	"go/constant"
	"go/token"
	"go/types"
	"math"
	"math/big"
	"os"
	"sort"
	"strings"
	"sync"

	"golang.org/x/tools/go/ssa"
)

type Obligation struct {
	Fn        string
	Kind      string // ensures, pre, inv-entry, inv-preserve, variant, safe-*, requires-sat, path-cover, lemma, frame
	Label     string
	Props     []string
	PC        []Term
	Goal      Term
	Abstract  bool
	Assumed   []string
	Path      int
	Site      string // source position for safety obligations
	ExpectSat bool   // vacuity checks: the query (pc) must be satisfiable
	Inputs    []Term // terms whose model values identify a counterexample
	Src       string
	// known findings: the unrestricted clause of an open finding is a canary (expected to fail)
	Canary   bool
	CanaryOf string
	// replay support
	Ctx      *runCtx
	Results  []Value
	PosTerm  *Term
	RetState *State
	// filled by the solver stage
	Res *SolveResult
}

func (o *Obligation) Name() string {
	n := o.Fn + "/" + o.Kind
	if o.Label != "" {
		n += ":" + o.Label
	}
	return n
}

type Machine struct {
	symCache      map[string][]string
	qmu           sync.Mutex
	smtRef        *SMT
	prog          *ssa.Program
	pkg           *ssa.Package
	fset          *token.FileSet
	contracts     *ContractFile
	prelude       *Prelude
	syms          *SymTab
	facts         map[string][]Term // symbol -> facts about it (included when the symbol occurs)
	obligs        []*Obligation
	objN          int
	strLits       map[string]Term
	typeConst     map[string]Term
	globals       map[*ssa.Global]*Obj
	globalMem     map[cellKey]Value
	loopInfo      map[*ssa.Function]*LoopInfo
	cur           *runCtx
	maxPaths      int
	inlineMax     int
	errs          []string
	warned        map[string]bool
	ifacePayload  map[string]Value
	provenance    map[*Obj]Term
	sliceTok      map[*Obj]Term
	runeStr       map[string]runeWindow
	mapWrites     []mapWrite
	chanCaps      map[string]Term
	queryOf       map[*Obligation]string
	divCache      map[string][2]Term
	initCells     map[cellKey]Value
	uninterpNames map[string]string
	uninterpUsed  map[string]bool
	allocInfo     map[string]allocRec
	reflectWrites []reflectWrite
	assertObjs    map[string]*Obj
	objFull       map[*Obj]Term // backing object of a converted string -> the full sequence term
	knownRegion   func(fn, kind, label string) (string, bool)
	regionEnv     *Env
	inCanary      bool
	concord       bool
	usedContracts map[string]bool
	// which properties / kinds to emit safety obligations for
	safetyProps []string
}

// runCtx is the per-verified-function context.
type runCtx struct {
	fn         *ssa.Function
	fc         *FuncContract
	key        string
	paths      int
	old        *State
	params     map[string]Value
	ptypes     map[string]types.Type
	inputs     []Term
	stale      []string
	mode       string // "contract" or "sweep"
	noSafety   bool
	allocCheck bool
	curResults []Value
	entryObjN  int
	freshTerms map[string]bool
	config     map[string]bool
	freeVars   map[string]bool
	retPCs     map[*ssa.Return][][]Term
}

func newMachine(prog *ssa.Program, pkg *ssa.Package, cf *ContractFile, pre *Prelude) *Machine {
	return &Machine{prog: prog, pkg: pkg, fset: prog.Fset, contracts: cf, prelude: pre, syms: newSymTab(),
		facts: map[string][]Term{}, strLits: map[string]Term{}, typeConst: map[string]Term{},
		globals: map[*ssa.Global]*Obj{}, globalMem: map[cellKey]Value{}, loopInfo: map[*ssa.Function]*LoopInfo{},
		maxPaths: 20000, inlineMax: 6, warned: map[string]bool{}, ifacePayload: map[string]Value{}, provenance: map[*Obj]Term{}, sliceTok: map[*Obj]Term{}, runeStr: map[string]runeWindow{}, chanCaps: map[string]Term{}, divCache: map[string][2]Term{}, initCells: map[cellKey]Value{}, uninterpNames: map[string]string{}, uninterpUsed: map[string]bool{}, allocInfo: map[string]allocRec{}, objFull: map[*Obj]Term{}, assertObjs: map[string]*Obj{}}
}

type unsupported struct{ msg string }

func (m *Machine) unsup(format string, a ...interface{}) {
	panic(unsupported{fmt.Sprintf(format, a...)})
}

func (m *Machine) newObj(name string, typ types.Type, array bool, elem Sort) *Obj {
	m.objN++
	return &Obj{ID: m.objN, Name: name, Typ: typ, Array: array, Elem: elem}
}

func (m *Machine) addFact(sym string, t Term) { m.facts[sym] = append(m.facts[sym], t) }

// ---------- sorts of Go types ----------

func isSigned(t types.Type) bool {
	if b, ok := t.Underlying().(*types.Basic); ok {
		return b.Info()&types.IsInteger != 0 && b.Info()&types.IsUnsigned == 0
	}
	return false
}

func intWidth(t types.Type) int {
	b, ok := t.Underlying().(*types.Basic)
	if !ok {
		return 0
	}
	switch b.Kind() {
	case types.Int8, types.Uint8:
		return 8
	case types.Int16, types.Uint16:
		return 16
	case types.Int32, types.Uint32:
		return 32
	case types.Int64, types.Uint64, types.Int, types.Uint, types.Uintptr, types.UntypedInt, types.UntypedRune:
		return 64
	}
	return 0
}

func isErrorType(t types.Type) bool {
	return types.Identical(t, types.Universe.Lookup("error").Type())
}

func typeString(t types.Type) string {
	return types.TypeString(t, func(p *types.Package) string {
		if p.Path() == "github.com/vogo/gohessian" {
			return ""
		}
		return p.Path()
	})
}

// sortOf maps a Go type to the SMT sort of its Term representation, or ""
// when values of the type are represented structurally (slices, pointers, structs, tuples).
func (m *Machine) sortOf(t types.Type) Sort {
	if typeString(t) == "reflect.Type" {
		return SRT
	}
	switch u := t.Underlying().(type) {
	case *types.Basic:
		switch {
		case u.Info()&types.IsBoolean != 0:
			return SBool
		case u.Info()&types.IsInteger != 0:
			return BVSort(intWidth(t))
		case u.Kind() == types.Float32:
			return SF32
		case u.Kind() == types.Float64 || u.Kind() == types.UntypedFloat:
			return SF64
		case u.Info()&types.IsString != 0:
			return SStr
		case u.Kind() == types.UnsafePointer:
			return ""
		case u.Kind() == types.UntypedNil:
			return SObj
		}
	case *types.Interface:
		if isErrorType(t) {
			return SErr
		}
		if u.NumMethods() == 0 {
			return SIface
		}
		return SObj
	case *types.Struct:
		switch typeString(t) {
		case "reflect.Value":
			return SRV
		case "time.Time":
			return STime
		}
		return ""
	case *types.Map:
		return Sort("MapRef")
	case *types.Chan, *types.Signature:
		return SObj
	case *types.Pointer:
		switch typeString(t) {
		case "*reflect.rtype":
			return SRT
		}
		return ""
	case *types.Slice, *types.Array, *types.Tuple:
		return ""
	}
	if typeString(t) == "reflect.Type" {
		return SRT
	}
	return SObj
}

func (m *Machine) elemSort(t types.Type) Sort {
	s := m.sortOf(t)
	if s == "" {
		switch u := t.Underlying().(type) {
		case *types.Slice:
			if b, ok := u.Elem().Underlying().(*types.Basic); ok && b.Kind() == types.String {
				return Sort("StrSeq")
			}
			if b, ok := u.Elem().Underlying().(*types.Basic); ok && b.Kind() == types.Uint8 {
				return SBytes
			}
		case *types.Struct:
			if typeString(t) == "ClassDef" {
				return Sort("ClassDefV")
			}
		}
		return SObj
	}
	return s
}

func (m *Machine) zeroTerm(s Sort) Term {
	switch {
	case s == SBool:
		return TFalse
	case s.IsBV():
		return BVLitI(0, s.Width())
	case s == SF32:
		return FPLitBits(0, 32)
	case s == SF64:
		return FPLitBits(0, 64)
	case s == SErr:
		return Sym("err.nil", SErr)
	case s == SIface:
		return Sym("iface.nil", SIface)
	case s == SStr:
		return m.strLit("")
	case s == STime:
		return Sym("time.zero", STime)
	case s == SRV:
		return Sym("rv.zero", SRV)
	case s == SRT:
		return Sym("rt.nil", SRT)
	case s == "MapRef":
		return Sym("map.nil", "MapRef")
	case s == SObj:
		return Sym("opaque.nil", SObj)
	}
	return m.syms.fresh("zero", s)
}

func (m *Machine) strLit(s string) Term {
	if s == "" {
		return Sym("str.empty", SStr)
	}
	if t, ok := m.strLits[s]; ok {
		return t
	}
	name := fmt.Sprintf("strlit!%d", len(m.strLits))
	t := m.syms.named(name, SStr)
	m.strLits[s] = t
	m.addFact(name, Eq(app(SBV64, "s.len", t), BVLitI(int64(len(s)), 64)))
	if len(s) <= 64 {
		for i := 0; i < len(s); i++ {
			m.addFact(name, Eq(app(SBV8, "s.at", t, BVLitI(int64(i), 64)), BVLitI(int64(s[i]), 8)))
		}
	}
	// distinctness from other literals of the same length follows from s.at facts;
	// give an explicit id to make inequality cheap
	m.addFact(name, Eq(app(SBV64, "s.litid", t), BVLitI(int64(len(m.strLits)), 64)))
	return t
}

func (m *Machine) zeroValue(t types.Type) Value {
	if s := m.sortOf(t); s != "" {
		return m.zeroTerm(s)
	}
	switch u := t.Underlying().(type) {
	case *types.Slice:
		return &SliceV{Obj: m.newObj("nilslice", u.Elem(), true, m.elemSort(u.Elem())), Off: BVLitI(0, 64), Len: BVLitI(0, 64), Cap: BVLitI(0, 64), Nil: TTrue}
	case *types.Pointer:
		return &PtrV{Typ: t}
	case *types.Struct:
		sv := &StructV{Typ: t}
		for i := 0; i < u.NumFields(); i++ {
			sv.F = append(sv.F, m.zeroValue(u.Field(i).Type()))
		}
		return sv
	case *types.Basic:
		if u.Kind() == types.UnsafePointer {
			return &PtrV{Typ: t}
		}
	case *types.Array:
		m.unsup("zero value of array type %s", t)
	}
	m.unsup("zero value of %s", t)
	return nil
}

// freshValue creates an unconstrained symbolic value of type t.
func (m *Machine) freshValue(name string, t types.Type) Value {
	if s := m.sortOf(t); s != "" {
		return m.syms.fresh(name, s)
	}
	switch u := t.Underlying().(type) {
	case *types.Slice:
		es := m.elemSort(u.Elem())
		obj := m.newObj(name, u.Elem(), true, es)
		obj.Sym = true
		ln := m.syms.fresh(name+".len", SBV64)
		cp := m.syms.fresh(name+".cap", SBV64)
		sl := &SliceV{Obj: obj, Off: BVLitI(0, 64), Len: ln, Cap: cp, Nil: m.syms.fresh(name+".nil", SBool)}
		return sl
	case *types.Pointer:
		obj := m.newObj(name, u.Elem(), false, "")
		obj.Sym = true
		return &PtrV{Obj: obj, Typ: t}
	case *types.Struct:
		sv := &StructV{Typ: t}
		for i := 0; i < u.NumFields(); i++ {
			sv.F = append(sv.F, m.freshValue(name+"."+u.Field(i).Name(), u.Field(i).Type()))
		}
		return sv
	case *types.Tuple:
		var tv Tuple
		for i := 0; i < u.Len(); i++ {
			tv = append(tv, m.freshValue(fmt.Sprintf("%s#%d", name, i), u.At(i).Type()))
		}
		return tv
	case *types.Basic:
		if u.Kind() == types.UnsafePointer {
			return &PtrV{Obj: m.newObj(name, types.Typ[types.Uint8], false, ""), Typ: t}
		}
	}
	m.unsup("fresh value of %s", t)
	return nil
}

// well-formedness facts of a fresh symbolic slice (lengths are non-negative and small).
func (m *Machine) sliceWF(st *State, sl *SliceV) {
	lim := BVLit(new(big.Int).Lsh(big.NewInt(1), 40), 64)
	st.assume(BVUle(sl.Len, sl.Cap))
	st.assume(BVUle(sl.Cap, lim))
	st.assume(Implies(sl.Nil, Eq(sl.Len, BVLitI(0, 64))))
}

// ---------- memory ----------

func (m *Machine) arrayInit(obj *Obj, zero bool) Term {
	as := ArraySort(SBV64, obj.Elem)
	if zero && (obj.Elem.IsBV() || obj.Elem == SBool) {
		return Term{S: fmt.Sprintf("((as const %s) %s)", as, m.zeroTerm(obj.Elem).S), Sort: as}
	}
	return m.syms.fresh(obj.Name+".arr", as)
}

func (m *Machine) loadArr(st *State, obj *Obj) Term {
	k := cellKey{obj, ""}
	if v, ok := st.mem[k]; ok {
		return v.(Term)
	}
	if v, ok := m.globalMem[k]; ok {
		return v.(Term)
	}
	// the initial contents of an object are one symbol shared by all states
	if st.isHavocked(obj, "") {
		t := m.arrayInit(obj, false)
		st.mem[k] = t
		return t
	}
	t, ok := m.initCells[k].(Term)
	if !ok {
		t = m.arrayInit(obj, false)
		m.initCells[k] = t
	}
	st.mem[k] = t
	return t
}

func (m *Machine) loadCell(st *State, obj *Obj, path []int, typ types.Type) Value {
	k := cellKey{obj, pathKey(path)}
	if v, ok := st.mem[k]; ok {
		return v
	}
	if v, ok := m.globalMem[k]; ok {
		return v
	}
	// lazily materialise the symbolic initial value; it is shared by all states
	// (so that old(e.f) and e.f denote the same value when e.f was never written)
	var v Value
	if st.isHavocked(obj, k.path) {
		// the cell was havocked (loop, callee frame) before it was first read in this state
		v = m.freshValue(obj.Name+pathName(obj, path)+"'", typ)
	} else {
		var ok bool
		v, ok = m.initCells[k]
		if !ok {
			v = m.freshValue(obj.Name+pathName(obj, path), typ)
			m.initCells[k] = v
		}
	}
	if sl, ok := v.(*SliceV); ok {
		m.sliceWF(st, sl)
	}
	st.mem[k] = v
	return v
}

func pathName(obj *Obj, path []int) string {
	t := obj.Typ
	var b strings.Builder
	for _, i := range path {
		if s, ok := t.Underlying().(*types.Struct); ok && i < s.NumFields() {
			b.WriteString("." + s.Field(i).Name())
			t = s.Field(i).Type()
		} else {
			fmt.Fprintf(&b, ".%d", i)
		}
	}
	return b.String()
}

func (m *Machine) load(st *State, p *PtrV, typ types.Type) Value {
	if p.Obj == nil {
		m.unsup("load through nil/unknown pointer")
	}
	if p.Idx != nil {
		arr := m.loadArr(st, p.Obj)
		el := Select(arr, *p.Idx)
		if len(p.Path) > 0 {
			return m.fieldOfElem(st, el, p, typ)
		}
		if el.Sort == "ClassDefV" {
			if _, isStruct := typ.Underlying().(*types.Struct); isStruct {
				return &StructV{Typ: typ, F: []Value{app(SStr, "cd.name", el), m.unpackSlice(st, app("StrSeq", "cd.fields", el), types.Typ[types.String])}}
			}
		}
		return m.reinterpret(el, typ)
	}
	if st2, ok := typ.Underlying().(*types.Struct); ok && m.sortOf(typ) == "" {
		sv := &StructV{Typ: typ}
		for i := 0; i < st2.NumFields(); i++ {
			sv.F = append(sv.F, m.load(st, &PtrV{Obj: p.Obj, Path: append(append([]int{}, p.Path...), i)}, st2.Field(i).Type()))
		}
		return sv
	}
	if at, ok := typ.Underlying().(*types.Array); ok {
		_ = at
		m.unsup("load of whole array value")
	}
	v := m.loadCell(st, p.Obj, p.Path, typ)
	if t, ok := v.(Term); ok {
		return m.reinterpret(t, typ)
	}
	return v
}

// reinterpret handles loads through unsafe-converted pointers of the same size.
func (m *Machine) reinterpret(t Term, typ types.Type) Value {
	want := m.sortOf(typ)
	if want == "" || want == t.Sort {
		return t
	}
	if want.IsBV() && t.Sort.IsBV() && want.Width() == t.Sort.Width() {
		return t
	}
	m.unsup("reinterpreting %s as %s", t.Sort, want)
	return nil
}

func (m *Machine) store(st *State, p *PtrV, v Value) {
	if p.Obj == nil {
		m.unsup("store through nil/unknown pointer")
	}
	if p.Idx != nil {
		t, ok := v.(Term)
		if !ok {
			t = m.packTerm(st, v, p.Obj.Elem)
		}
		arr := m.loadArr(st, p.Obj)
		st.mem[cellKey{p.Obj, ""}] = Store(arr, *p.Idx, t)
		return
	}
	if sv, ok := v.(*StructV); ok {
		for i, f := range sv.F {
			m.store(st, &PtrV{Obj: p.Obj, Path: append(append([]int{}, p.Path...), i)}, f)
		}
		return
	}
	st.mem[cellKey{p.Obj, pathKey(p.Path)}] = v
	if st.written == nil {
		st.written = map[cellKey]bool{}
	}
	st.written[cellKey{p.Obj, pathKey(p.Path)}] = true
}

// packTerm converts a structural value into a term of the wanted sort (used
// when storing slices/structs into arrays or passing them to spec functions).
func (m *Machine) packTerm(st *State, v Value, want Sort) Term {
	switch x := v.(type) {
	case Term:
		if x.Sort == want || want == "" {
			return x
		}
	case *SliceV:
		var ctor string
		switch want {
		case SBytes:
			ctor = "mkbytes"
		case SRunes:
			ctor = "mkrunes"
		case "StrSeq":
			ctor = "mkstrseq"
		}
		if ctor != "" {
			if !(x.Off.IsConst() && x.Off.C.Sign() == 0) {
				// shifted view: introduce the shifted array by an uninterpreted shift
				arr := m.loadArr(st, x.Obj)
				sh := app(arr.Sort, "shift."+sortTag(x.Obj.Elem), arr, x.Off)
				return app(want, ctor, sh, x.Len)
			}
			return app(want, ctor, m.loadArr(st, x.Obj), x.Len)
		}
	case *StructV:
		if want == "ClassDefV" && len(x.F) == 2 {
			return app(want, "mkclassdef", m.packTerm(st, x.F[0], SStr), m.packTerm(st, x.F[1], "StrSeq"))
		}
	}
	if want == SObj || want == "" {
		return m.syms.fresh("packed", SObj)
	}
	m.unsup("cannot pack %T as %s", v, want)
	return Term{}
}

func sortTag(s Sort) string {
	switch s {
	case SBV8:
		return "b"
	case SBV32:
		return "r"
	case SStr:
		return "s"
	}
	return "x"
}

// unpackTerm converts a term of a sequence sort back into a slice value.
func (m *Machine) unpackSlice(st *State, t Term, elem types.Type) *SliceV {
	var arrSel, lenSel string
	switch t.Sort {
	case SBytes:
		arrSel, lenSel = "barr", "blen"
	case SRunes:
		arrSel, lenSel = "rarr", "rlen"
	case "StrSeq":
		arrSel, lenSel = "ssarr", "sslen"
	default:
		m.unsup("unpack slice from %s", t.Sort)
	}
	es := m.elemSort(elem)
	obj := m.newObj("unpacked", elem, true, es)
	st.mem[cellKey{obj, ""}] = app(ArraySort(SBV64, es), arrSel, t)
	ln := app(SBV64, lenSel, t)
	return &SliceV{Obj: obj, Off: BVLitI(0, 64), Len: ln, Cap: ln, Nil: TFalse}
}

// ---------- operand evaluation ----------

func (m *Machine) constValue(c *ssa.Const) Value {
	t := c.Type()
	if c.Value == nil {
		return m.zeroValue(t)
	}
	switch u := t.Underlying().(type) {
	case *types.Basic:
		switch {
		case u.Info()&types.IsBoolean != 0:
			return mkBool(constant.BoolVal(c.Value))
		case u.Info()&types.IsInteger != 0:
			v, _ := new(big.Int).SetString(constant.ToInt(c.Value).ExactString(), 10)
			return BVLit(v, intWidth(t))
		case u.Info()&types.IsFloat != 0:
			f, _ := constant.Float64Val(c.Value)
			if u.Kind() == types.Float32 {
				return FPLitBits(uint64(math.Float32bits(float32(f))), 32)
			}
			return FPLitBits(math.Float64bits(f), 64)
		case u.Info()&types.IsString != 0:
			return m.strLit(constant.StringVal(c.Value))
		}
	}
	m.unsup("constant of type %s", t)
	return nil
}

func (m *Machine) globalPtr(g *ssa.Global) *PtrV {
	obj, ok := m.globals[g]
	if !ok {
		pt := g.Type().(*types.Pointer).Elem()
		obj = m.newObj("g."+g.Name(), pt, false, "")
		m.globals[g] = obj
		// sentinel errors of other packages (io.EOF, io.ErrShortWrite, ...): fixed non-nil values
		if g.Pkg != m.pkg && isErrorType(pt) {
			var t Term
			switch g.Pkg.Pkg.Path() + "." + g.Name() {
			case "io.EOF":
				t = Sym("err.EOF", SErr)
			case "io.ErrUnexpectedEOF":
				t = Sym("err.UnexpectedEOF", SErr)
			default:
				t = m.syms.named("err.g."+sanitize(g.Pkg.Pkg.Path()+"."+g.Name()), SErr)
				m.addFact(t.S, And(Not(Eq(t, Sym("err.nil", SErr))), Not(Eq(t, Sym("err.EOF", SErr)))))
			}
			m.globalMem[cellKey{obj, ""}] = t
		}
	}
	return &PtrV{Obj: obj, Typ: g.Type()}
}

func (m *Machine) operand(c *Config, v ssa.Value) Value {
	switch x := v.(type) {
	case *ssa.Const:
		return m.constValue(x)
	case *ssa.Global:
		return m.globalPtr(x)
	case *ssa.Function:
		return &FuncV{Fn: x}
	case *ssa.Builtin:
		return &FuncV{Name: x.Name()}
	}
	if r, ok := c.top.regs[v]; ok {
		return r
	}
	if fv, ok := v.(*ssa.FreeVar); ok {
		m.unsup("free variable %s", fv.Name())
	}
	m.unsup("unbound value %s (%T) in %s", v.Name(), v, c.top.fn.Name())
	return nil
}

func (m *Machine) termOf(c *Config, v ssa.Value) Term {
	x := m.operand(c, v)
	t, ok := x.(Term)
	if !ok {
		m.unsup("expected scalar for %s, got %T", v.Name(), x)
	}
	return t
}

// ---------- obligations ----------

func (m *Machine) emit(c *Config, kind, label string, props []string, goal Term, site string, src string) {
	if c.st.dead {
		return
	}
	if m.knownRegion != nil && !m.inCanary {
		if region, ok := m.knownRegion(m.cur.key, kind, label); ok {
			// canary: the unrestricted clause (expected to keep failing)
			m.inCanary = true
			n0 := len(m.obligs)
			m.emit(c, kind, label, props, goal, site, src)
			m.inCanary = false
			for _, o := range m.obligs[n0:] {
				o.Canary = true
				o.CanaryOf = m.cur.key + "/" + kind + ":" + label
				if o.Res != nil && o.Res.Backend == "constant-folding" {
					o.Res = &SolveResult{Status: "unsat", Backend: "constant-folding"}
				}
			}
			// residual: the clause outside the recorded region
			rt := TTrue
			if region != "true" {
				rt = TFalse
				if m.regionEnv != nil {
					if e, err := parseExpr(region); err == nil {
						if t, err := m.evalBool(m.regionEnv, e); err == nil {
							rt = t
						} else {
							m.errs = append(m.errs, fmt.Sprintf("known-finding region %q: %v", region, err))
						}
					} else {
						m.errs = append(m.errs, fmt.Sprintf("known-finding region %q: %v", region, err))
					}
				}
			}
			goal = Or(rt, goal)
			src = src + "   [residual outside known-finding region: " + region + "]"
		}
	}
	if goal.IsConst() && goal.C.Sign() != 0 {
		// trivially true after constant folding: still counted, discharged by the engine's folding
		// (kept out of the solver to bound the number of processes)
		m.obligs = append(m.obligs, &Obligation{Fn: m.cur.key, Kind: kind, Label: label, Props: props, PC: nil, Goal: TTrue,
			Abstract: c.st.abstract, Assumed: append([]string(nil), c.st.assumed...), Path: m.cur.paths, Site: site, Src: src,
			Res: &SolveResult{Status: "unsat", Backend: "constant-folding"}})
		return
	}
	ob := &Obligation{Fn: m.cur.key, Kind: kind, Label: label, Props: props,
		PC: append([]Term(nil), c.st.pc...), Goal: goal, Abstract: c.st.abstract,
		Assumed: append([]string(nil), c.st.assumed...), Path: m.cur.paths, Site: site, Inputs: m.cur.inputs, Src: src,
		Ctx: m.cur, Results: m.cur.curResults, RetState: c.st}
	if pv, ok := c.st.ghost["@pos"].(Term); ok {
		ob.PosTerm = &pv
	}
	m.obligs = append(m.obligs, ob)
}

func (m *Machine) safety(c *Config, kind string, goal Term, pos token.Pos) {
	if m.cur.noSafety {
		return
	}
	site := ""
	if pos.IsValid() {
		p := m.fset.Position(pos)
		site = fmt.Sprintf("%s:%d", shortFile(p.Filename), p.Line)
	}
	// safety obligations are labelled by enclosing function of the instruction (stable under line shifts)
	label := c.top.fn.Name()
	if m.cur.fc != nil && m.cur.fc.MayPanic != "" {
		// panics of this function are turned into errors by the recovering entry points
		// (obligations package/recovers:*); the local obligation is recorded as covered
		m.emit(c, "recovered-"+kind, label, m.safetyProps, TTrue, site, "may panic ("+m.cur.fc.MayPanic+"); recovered at the decode entry points")
		return
	}
	m.emit(c, kind, label, m.safetyProps, goal, site, "")
}

func shortFile(s string) string {
	if i := strings.LastIndex(s, "/"); i >= 0 {
		return s[i+1:]
	}
	return s
}

// ---------- the stepping loop ----------

type returnHandler func(c *Config, results []Value)

func (m *Machine) explore(root *Config, onReturn returnHandler) {
	work := []*Config{root}
	for len(work) > 0 {
		c := work[len(work)-1]
		work = work[:len(work)-1]
		for c != nil && !c.st.dead {
			next, forks := m.step(c, onReturn)
			work = append(work, forks...)
			if next != nil && next.st.dead && os.Getenv("GOVC_TRACE") != "" {
				fmt.Fprintf(os.Stderr, "TRACE dead path in %s block %d (%s) ip %d\n", next.top.fn.Name(), next.top.block.Index, next.top.block.Comment, next.top.ip)
			}
			c = next
		}
		if m.cur.paths > m.maxPaths {
			m.unsup("path limit %d exceeded", m.maxPaths)
		}
	}
}

// step executes one instruction of c; returns the continuing config (nil when
// the path ended) and any additional forked configs.
func (m *Machine) step(c *Config, onReturn returnHandler) (*Config, []*Config) {
	fr := c.top
	if fr.ip >= len(fr.block.Instrs) {
		m.unsup("fell off block")
	}
	ins := fr.block.Instrs[fr.ip]
	fr.ip++
	switch x := ins.(type) {
	case *ssa.DebugRef:
		return c, nil
	case *ssa.If:
		cond := m.termOf(c, x.Cond)
		tb, fb := fr.block.Succs[0], fr.block.Succs[1]
		if cond.IsConst() {
			if cond.C.Sign() != 0 {
				return m.jump(c, tb), nil
			}
			return m.jump(c, fb), nil
		}
		c2 := c.clone()
		c.st.assume(cond)
		c2.st.assume(Not(cond))
		n1 := m.jump(c, tb)
		n2 := m.jump(c2, fb)
		var forks []*Config
		if n2 != nil {
			forks = append(forks, n2)
		}
		return n1, forks
	case *ssa.Jump:
		return m.jump(c, fr.block.Succs[0]), nil
	case *ssa.Return:
		var res []Value
		for _, r := range x.Results {
			res = append(res, m.operand(c, r))
		}
		if fr.parent == nil {
			m.cur.paths++
			onReturn(c, res)
			return nil, nil
		}
		// return to the caller frame
		call := fr.call
		c.top = fr.parent
		m.bindCallResult(c, call, res)
		return c, nil
	case *ssa.Panic:
		m.safety(c, "safe-panic", TFalse, x.Pos())
		m.cur.paths++
		return nil, nil
	case *ssa.RunDefers:
		// deferred calls run in LIFO order on the normal path; recover() yields nil there
		if n := len(fr.defers); n > 0 {
			d := fr.defers[n-1]
			fr.defers = fr.defers[:n-1]
			fr.ip-- // come back to rundefers for the remaining ones
			return m.runDeferred(c, d)
		}
		return c, nil
	case ssa.CallInstruction:
		if _, isGo := x.(*ssa.Go); isGo {
			m.unsup("go statement")
		}
		if d, isDefer := x.(*ssa.Defer); isDefer {
			var args []Value
			for _, a := range d.Call.Args {
				args = append(args, m.operand(c, a))
			}
			fr.defers = append(fr.defers, deferred{ins: d, fn: m.operand(c, d.Call.Value), args: args})
			return c, nil
		}
		return m.doCall(c, x)
	case *ssa.Store:
		addr := m.operand(c, x.Addr)
		p, ok := addr.(*PtrV)
		if !ok {
			m.unsup("store to non-pointer %T", addr)
		}
		m.store(c.st, p, m.operand(c, x.Val))
		return c, nil
	case *ssa.MapUpdate:
		m.mapUpdate(c, x)
		return c, nil
	case *ssa.Send:
		m.emit(c, "nonblocking", c.top.fn.Name(), []string{"C17"}, TFalse, m.site(x), "blocking channel send")
		m.unsup("channel send")
	case ssa.Value:
		v, forks := m.evalValue(c, x)
		if !c.st.dead {
			c.top.regs[x] = v
		}
		return c, forks
	}
	m.unsup("instruction %T", ins)
	return nil, nil
}

func (m *Machine) bindCallResult(c *Config, call ssa.CallInstruction, res []Value) {
	v := call.Value()
	if v == nil {
		return
	}
	switch len(res) {
	case 0:
	case 1:
		c.top.regs[v] = res[0]
	default:
		c.top.regs[v] = Tuple(res)
	}
}

// ---------- value instructions ----------

func (m *Machine) evalValue(c *Config, v ssa.Value) (Value, []*Config) {
	st := c.st
	switch x := v.(type) {
	case *ssa.Alloc:
		pt := x.Type().(*types.Pointer).Elem()
		name := x.Comment
		if name == "" {
			name = x.Name()
		}
		if at, ok := pt.Underlying().(*types.Array); ok {
			obj := m.newObj(name, at.Elem(), true, m.elemSort(at.Elem()))
			st.mem[cellKey{obj, ""}] = m.arrayInit(obj, true)
			return &PtrV{Obj: obj, Typ: x.Type()}, nil
		}
		obj := m.newObj(name, pt, false, "")
		p := &PtrV{Obj: obj, Typ: x.Type()}
		m.store(st, p, m.zeroValue(pt))
		return p, nil
	case *ssa.Phi:
		for i, pred := range c.top.block.Preds {
			if pred == c.top.prev {
				return m.operand(c, x.Edges[i]), nil
			}
		}
		m.unsup("phi without matching predecessor")
	case *ssa.UnOp:
		return m.unop(c, x), nil
	case *ssa.BinOp:
		return m.binop(c, x), nil
	case *ssa.Convert:
		return m.convert(c, x), nil
	case *ssa.ChangeType:
		return m.operand(c, x.X), nil
	case *ssa.ChangeInterface:
		return m.changeInterface(c, x), nil
	case *ssa.MakeInterface:
		return m.makeInterface(c, x), nil
	case *ssa.TypeAssert:
		return m.typeAssert(c, x), nil
	case *ssa.Extract:
		tv, ok := m.operand(c, x.Tuple).(Tuple)
		if !ok {
			m.unsup("extract from non-tuple")
		}
		return tv[x.Index], nil
	case *ssa.IndexAddr:
		return m.indexAddr(c, x), nil
	case *ssa.FieldAddr:
		p, ok := m.operand(c, x.X).(*PtrV)
		if !ok {
			m.unsup("fieldaddr on %T", m.operand(c, x.X))
		}
		if p.Obj == nil {
			m.safety(c, "safe-nil", TFalse, x.Pos())
			st.dead = true
			return nil, nil
		}
		return &PtrV{Obj: p.Obj, Idx: p.Idx, Path: append(append([]int{}, p.Path...), x.Field), Typ: x.Type()}, nil
	case *ssa.Field:
		switch sv := m.operand(c, x.X).(type) {
		case *StructV:
			return sv.F[x.Field], nil
		case Term:
			return m.fieldOfTerm(c, sv, x), nil
		}
		m.unsup("field of %T", m.operand(c, x.X))
	case *ssa.Slice:
		return m.sliceOp(c, x), nil
	case *ssa.MakeSlice:
		ln := BVConv(m.termOf(c, x.Len), isSigned(x.Len.Type()), 64)
		cp := BVConv(m.termOf(c, x.Cap), isSigned(x.Cap.Type()), 64)
		m.safety(c, "safe-make", And(BVSge(ln, BVLitI(0, 64)), BVSle(ln, cp)), x.Pos())
		st.assume(And(BVSge(ln, BVLitI(0, 64)), BVSle(ln, cp)))
		m.allocBound(c, ln, x.Pos())
		et := x.Type().Underlying().(*types.Slice).Elem()
		obj := m.newObj("make", et, true, m.elemSort(et))
		st.mem[cellKey{obj, ""}] = m.arrayInit(obj, true)
		return &SliceV{Obj: obj, Off: BVLitI(0, 64), Len: ln, Cap: cp, Nil: TFalse}, nil
	case *ssa.Index:
		return m.indexOp(c, x), nil
	case *ssa.Lookup:
		return m.lookup(c, x), nil
	case *ssa.MakeMap:
		return m.makeMap(c, x), nil
	case *ssa.MakeClosure:
		fv := &FuncV{Fn: x.Fn.(*ssa.Function)}
		for _, b := range x.Bindings {
			fv.Bind = append(fv.Bind, m.operand(c, b))
		}
		return fv, nil
	case *ssa.MakeChan:
		return m.makeChan(c, x), nil
	case *ssa.Select:
		return m.selectOp(c, x)
	case *ssa.Range:
		return m.rangeOp(c, x), nil
	case *ssa.Next:
		return m.nextOp(c, x)
	}
	m.unsup("value instruction %T (%s)", v, v)
	return nil, nil
}

func (m *Machine) indexAddr(c *Config, x *ssa.IndexAddr) Value {
	idx := m.termOf(c, x.Index)
	idx = BVConv(idx, isSigned(x.Index.Type()), 64)
	switch b := m.operand(c, x.X).(type) {
	case *PtrV:
		if b.Obj == nil {
			m.safety(c, "safe-nil", TFalse, x.Pos())
			c.st.dead = true
			return nil
		}
		at := b.Typ.Underlying().(*types.Pointer).Elem().Underlying().(*types.Array)
		n := BVLitI(at.Len(), 64)
		m.safety(c, "safe-index", BVUlt(idx, n), x.Pos())
		c.st.assume(BVUlt(idx, n))
		base := BVLitI(0, 64)
		if b.Idx != nil {
			base = *b.Idx
		}
		i := BVAdd(base, idx)
		return &PtrV{Obj: b.Obj, Idx: &i, Typ: x.Type()}
	case *SliceV:
		m.safety(c, "safe-index", BVUlt(idx, b.Len), x.Pos())
		c.st.assume(BVUlt(idx, b.Len))
		i := BVAdd(b.Off, idx)
		return &PtrV{Obj: b.Obj, Idx: &i, Typ: x.Type()}
	}
	m.unsup("indexaddr on %T", m.operand(c, x.X))
	return nil
}

func (m *Machine) indexOp(c *Config, x *ssa.Index) Value {
	idx := BVConv(m.termOf(c, x.Index), isSigned(x.Index.Type()), 64)
	switch b := m.operand(c, x.X).(type) {
	case Term:
		if b.Sort == SStr {
			ln := app(SBV64, "s.len", b)
			m.safety(c, "safe-index", BVUlt(idx, ln), x.Pos())
			c.st.assume(BVUlt(idx, ln))
			return app(SBV8, "s.at", b, idx)
		}
	}
	m.unsup("index on %T", m.operand(c, x.X))
	return nil
}

func (m *Machine) sliceOp(c *Config, x *ssa.Slice) Value {
	st := c.st
	get := func(v ssa.Value) *Term {
		if v == nil {
			return nil
		}
		t := BVConv(m.termOf(c, v), isSigned(v.Type()), 64)
		return &t
	}
	lo, hi, mx := get(x.Low), get(x.High), get(x.Max)
	zero := BVLitI(0, 64)
	switch b := m.operand(c, x.X).(type) {
	case *PtrV: // pointer to array
		at := b.Typ.Underlying().(*types.Pointer).Elem().Underlying().(*types.Array)
		n := BVLitI(at.Len(), 64)
		l, h := zero, n
		if lo != nil {
			l = *lo
		}
		if hi != nil {
			h = *hi
		}
		cp := n
		if mx != nil {
			cp = *mx
		}
		g := And(BVUle(l, h), BVUle(h, cp), BVUle(cp, n))
		m.safety(c, "safe-slice", g, x.Pos())
		st.assume(g)
		return &SliceV{Obj: b.Obj, Off: l, Len: BVSub(h, l), Cap: BVSub(cp, l), Nil: TFalse}
	case *SliceV:
		l, h := zero, b.Len
		if lo != nil {
			l = *lo
		}
		if hi != nil {
			h = *hi
		}
		cp := b.Cap
		if mx != nil {
			cp = *mx
		}
		g := And(BVUle(l, h), BVUle(h, cp), BVUle(cp, b.Cap))
		m.safety(c, "safe-slice", g, x.Pos())
		st.assume(g)
		return &SliceV{Obj: b.Obj, Off: BVAdd(b.Off, l), Len: BVSub(h, l), Cap: BVSub(cp, l), Nil: And(b.Nil, Eq(h, zero))}
	case Term:
		if b.Sort == SStr {
			ln := app(SBV64, "s.len", b)
			l, h := zero, ln
			if lo != nil {
				l = *lo
			}
			if hi != nil {
				h = *hi
			}
			g := And(BVUle(l, h), BVUle(h, ln))
			m.safety(c, "safe-slice", g, x.Pos())
			st.assume(g)
			if l.IsConst() && l.C.Sign() == 0 && h.S == ln.S {
				return b
			}
			r := app(SStr, "s.sub", b, l, h)
			st.assume(Eq(app(SBV64, "s.len", r), BVSub(h, l)))
			return r
		}
	}
	m.unsup("slice of %T", m.operand(c, x.X))
	return nil
}

func (m *Machine) unop(c *Config, x *ssa.UnOp) Value {
	switch x.Op {
	case token.MUL:
		p, ok := m.operand(c, x.X).(*PtrV)
		if !ok {
			m.unsup("load from %T", m.operand(c, x.X))
		}
		if p.Obj == nil {
			m.safety(c, "safe-nil", TFalse, x.Pos())
			c.st.dead = true
			return nil
		}
		return m.load(c.st, p, x.Type())
	case token.NOT:
		return Not(m.termOf(c, x.X))
	case token.SUB:
		t := m.termOf(c, x.X)
		if t.Sort.IsFP() {
			return app(t.Sort, "fp.neg", t)
		}
		return BVNeg(t)
	case token.XOR:
		return BVNot(m.termOf(c, x.X))
	case token.ARROW:
		m.emit(c, "nonblocking", c.top.fn.Name(), []string{"C17"}, TFalse, m.site(x), "blocking channel receive")
		m.unsup("channel receive outside select")
	}
	m.unsup("unop %s", x.Op)
	return nil
}

func (m *Machine) binop(c *Config, x *ssa.BinOp) Value {
	a := m.operand(c, x.X)
	b := m.operand(c, x.Y)
	at, aok := a.(Term)
	bt, bok := b.(Term)
	if !aok || !bok {
		return m.binopStructural(c, x, a, b)
	}
	t := x.X.Type()
	signed := isSigned(t)
	switch {
	case at.Sort.IsBV() && (x.Op == token.SHL || x.Op == token.SHR):
		w := at.Sort.Width()
		cnt := bt
		if isSigned(x.Y.Type()) {
			m.safety(c, "safe-shift", BVSge(cnt, BVLitI(0, cnt.Sort.Width())), x.Pos())
		}
		var cw Term
		if cnt.IsConst() {
			if cnt.C.Cmp(big.NewInt(int64(w))) >= 0 {
				cw = BVLitI(int64(w), w)
			} else {
				cw = BVLit(cnt.C, w)
			}
		} else if cnt.Sort.Width() <= w {
			cw = ZeroExt(cnt, w)
		} else {
			cw = Ite(BVUge(cnt, BVLitI(int64(w), cnt.Sort.Width())), BVLitI(int64(w), w), Extract(w-1, 0, cnt))
		}
		if x.Op == token.SHL {
			return BVShl(at, cw)
		}
		if signed {
			return BVAshr(at, cw)
		}
		return BVLshr(at, cw)
	case at.Sort.IsBV() && bt.Sort.IsBV():
		switch x.Op {
		case token.ADD:
			return BVAdd(at, bt)
		case token.SUB:
			return BVSub(at, bt)
		case token.MUL:
			return BVMul(at, bt)
		case token.QUO, token.REM:
			m.safety(c, "safe-div", Not(Eq(bt, BVLitI(0, bt.Sort.Width()))), x.Pos())
			c.st.assume(Not(Eq(bt, BVLitI(0, bt.Sort.Width()))))
			if q, r, ok := m.divConst(c.st, at, bt, signed); ok {
				if x.Op == token.QUO {
					return q
				}
				return r
			}
			if x.Op == token.QUO {
				if signed {
					return BVSDiv(at, bt)
				}
				return BVUDiv(at, bt)
			}
			if signed {
				return BVSRem(at, bt)
			}
			return BVURem(at, bt)
		case token.AND:
			return BVAnd(at, bt)
		case token.OR:
			return BVOr(at, bt)
		case token.XOR:
			return BVXor(at, bt)
		case token.AND_NOT:
			return BVAnd(at, BVNot(bt))
		case token.EQL:
			return Eq(at, bt)
		case token.NEQ:
			return Not(Eq(at, bt))
		case token.LSS:
			if signed {
				return BVSlt(at, bt)
			}
			return BVUlt(at, bt)
		case token.LEQ:
			if signed {
				return BVSle(at, bt)
			}
			return BVUle(at, bt)
		case token.GTR:
			if signed {
				return BVSgt(at, bt)
			}
			return BVUgt(at, bt)
		case token.GEQ:
			if signed {
				return BVSge(at, bt)
			}
			return BVUge(at, bt)
		}
	case at.Sort.IsFP():
		switch x.Op {
		case token.ADD:
			return Term{S: fmt.Sprintf("(fp.add RNE %s %s)", at.S, bt.S), Sort: at.Sort}
		case token.SUB:
			return Term{S: fmt.Sprintf("(fp.sub RNE %s %s)", at.S, bt.S), Sort: at.Sort}
		case token.MUL:
			return Term{S: fmt.Sprintf("(fp.mul RNE %s %s)", at.S, bt.S), Sort: at.Sort}
		case token.QUO:
			return Term{S: fmt.Sprintf("(fp.div RNE %s %s)", at.S, bt.S), Sort: at.Sort}
		case token.EQL:
			return app(SBool, "fp.eq", at, bt)
		case token.NEQ:
			return Not(app(SBool, "fp.eq", at, bt))
		case token.LSS:
			return app(SBool, "fp.lt", at, bt)
		case token.LEQ:
			return app(SBool, "fp.leq", at, bt)
		case token.GTR:
			return app(SBool, "fp.gt", at, bt)
		case token.GEQ:
			return app(SBool, "fp.geq", at, bt)
		}
	case at.Sort == SBool:
		switch x.Op {
		case token.EQL:
			return Eq(at, bt)
		case token.NEQ:
			return Not(Eq(at, bt))
		case token.AND, token.LAND:
			return And(at, bt)
		case token.OR, token.LOR:
			return Or(at, bt)
		}
	case at.Sort == SStr:
		switch x.Op {
		case token.EQL:
			return Eq(at, bt)
		case token.NEQ:
			return Not(Eq(at, bt))
		case token.ADD:
			r := app(SStr, "s.cat", at, bt)
			return r
		}
	default:
		if at.Sort != bt.Sort && (bt.Sort == SObj || at.Sort == SObj) {
			// comparison against untyped nil
			if bt.Sort == SObj {
				bt = m.zeroTerm(at.Sort)
			} else {
				at = m.zeroTerm(bt.Sort)
			}
		}
		switch x.Op {
		case token.EQL:
			return m.ifaceEq(c, at, bt)
		case token.NEQ:
			return Not(m.ifaceEq(c, at, bt))
		}
	}
	m.unsup("binop %s on %s", x.Op, at.Sort)
	return nil
}

func (m *Machine) ifaceEq(c *Config, a, b Term) Term { return Eq(a, b) }

func (m *Machine) binopStructural(c *Config, x *ssa.BinOp, a, b Value) Value {
	// pointer / slice comparisons against nil
	isNil := func(v Value) (Term, bool) {
		switch p := v.(type) {
		case *PtrV:
			return mkBool(p.Obj == nil), true
		case *SliceV:
			return p.Nil, true
		case *FuncV:
			return TFalse, true
		}
		return Term{}, false
	}
	an, aok := isNil(a)
	bn, bok := isNil(b)
	if pa, ok := a.(*PtrV); ok {
		if pb, ok := b.(*PtrV); ok {
			eq := mkBool(pa.Obj == pb.Obj && pathKey(pa.Path) == pathKey(pb.Path))
			if x.Op == token.EQL {
				return eq
			}
			return Not(eq)
		}
	}
	if aok && bok {
		var eq Term
		if _, isSl := a.(*SliceV); isSl {
			// slices compare only against nil
			if t, ok := b.(*SliceV); ok && t.Nil.IsConst() && t.Nil.C.Sign() != 0 {
				eq = an
			} else {
				eq = bn
			}
		} else {
			eq = Eq(an, bn)
		}
		if x.Op == token.EQL {
			return eq
		}
		return Not(eq)
	}
	m.unsup("binop %s on %T,%T", x.Op, a, b)
	return nil
}

func (m *Machine) convert(c *Config, x *ssa.Convert) Value {
	from, to := x.X.Type(), x.Type()
	v := m.operand(c, x.X)
	fu, tu := from.Underlying(), to.Underlying()
	// pointer <-> unsafe.Pointer
	if p, ok := v.(*PtrV); ok {
		np := *p
		np.Typ = to
		return &np
	}
	// uintptr <-> unsafe.Pointer: the address as a 64-bit number
	if t, ok := v.(Term); ok && t.Sort == SBV64 {
		if tb, ok := tu.(*types.Basic); ok && tb.Kind() == types.UnsafePointer {
			return t
		}
		if fb, ok := fu.(*types.Basic); ok && fb.Kind() == types.UnsafePointer {
			return t
		}
	}
	fb, fok := fu.(*types.Basic)
	tb, tok := tu.(*types.Basic)
	if fok && tok {
		t := v.(Term)
		switch {
		case fb.Info()&types.IsInteger != 0 && tb.Info()&types.IsInteger != 0:
			return BVConv(t, isSigned(from), intWidth(to))
		case fb.Info()&types.IsInteger != 0 && tb.Info()&types.IsFloat != 0:
			if isSigned(from) {
				return FPFromSInt(t, m.sortOf(to))
			}
			return FPFromUInt(t, m.sortOf(to))
		case fb.Info()&types.IsFloat != 0 && tb.Info()&types.IsFloat != 0:
			return FPConv(t, m.sortOf(to))
		case fb.Info()&types.IsFloat != 0 && tb.Info()&types.IsInteger != 0:
			return m.fpToInt(c, t, to)
		case fb.Info()&types.IsString != 0 && tb.Info()&types.IsString != 0:
			return t
		case fb.Info()&types.IsInteger != 0 && tb.Info()&types.IsString != 0:
			c.st.abstract = true
			return app(SStr, "s.ofrune", BVConv(t, isSigned(from), 32))
		}
	}
	// string <-> []byte / []rune
	if tok && tb.Info()&types.IsString != 0 {
		if sl, ok := v.(*SliceV); ok {
			return m.stringOfSlice(c, sl)
		}
	}
	if fok && fb.Info()&types.IsString != 0 {
		if ts, ok := tu.(*types.Slice); ok {
			return m.sliceOfString(c, v.(Term), ts)
		}
	}
	m.unsup("convert %s -> %s", from, to)
	return nil
}

// float -> integer conversion, pinned to the amd64 result for out-of-range inputs (A-FP1).
func (m *Machine) fpToInt(c *Config, f Term, to types.Type) Value {
	w := intWidth(to)
	if w != 64 || !isSigned(to) {
		m.unsup("float to %s conversion", to)
	}
	c.st.trust("A-FP1: float64->int64 out of range yields 0x8000000000000000 (amd64 CVTTSD2SQ)")
	var lo, hi Term
	if f.Sort == SF64 {
		lo = FPLitBits(math.Float64bits(-9223372036854775808.0), 64)
		hi = FPLitBits(math.Float64bits(9223372036854775808.0), 64)
	} else {
		lo = FPLitBits(uint64(math.Float32bits(-9223372036854775808.0)), 32)
		hi = FPLitBits(uint64(math.Float32bits(9223372036854775808.0)), 32)
	}
	inRange := And(app(SBool, "fp.leq", lo, f), app(SBool, "fp.lt", f, hi))
	conv := Term{S: fmt.Sprintf("((_ fp.to_sbv 64) RTZ %s)", f.S), Sort: SBV64}
	return Ite(inRange, conv, BVLit(new(big.Int).Lsh(big.NewInt(1), 63), 64))
}

// ---------- blocks, loops ----------

func (m *Machine) jump(c *Config, to *ssa.BasicBlock) *Config {
	fr := c.top
	li := m.loopsOf(fr.fn)
	from := fr.block
	if lp, isHead := li.heads[to]; isHead {
		if _, active := fr.active[to]; active && li.isBackEdge(from, to) {
			m.loopBack(c, lp, from)
			m.cur.paths++
			return nil
		}
		return m.loopEnter(c, lp, from)
	}
	fr.prev = from
	fr.block = to
	fr.ip = 0
	return c
}

type Loop struct {
	head    *ssa.BasicBlock
	blocks  map[*ssa.BasicBlock]bool
	ordinal int // source order of the for/range statement within the function (1-based)
	pos     token.Pos
}

type LoopInfo struct {
	heads map[*ssa.BasicBlock]*Loop
	list  []*Loop
}

func (li *LoopInfo) isBackEdge(from, to *ssa.BasicBlock) bool {
	lp := li.heads[to]
	return lp != nil && lp.blocks[from]
}

func (m *Machine) loopsOf(fn *ssa.Function) *LoopInfo {
	if li, ok := m.loopInfo[fn]; ok {
		return li
	}
	li := &LoopInfo{heads: map[*ssa.BasicBlock]*Loop{}}
	for _, b := range fn.Blocks {
		for _, s := range b.Succs {
			if s.Dominates(b) { // back edge b -> s
				lp := li.heads[s]
				if lp == nil {
					lp = &Loop{head: s, blocks: map[*ssa.BasicBlock]bool{s: true}}
					li.heads[s] = lp
					li.list = append(li.list, lp)
				}
				// natural loop: all nodes that reach b without passing s
				stack := []*ssa.BasicBlock{b}
				for len(stack) > 0 {
					n := stack[len(stack)-1]
					stack = stack[:len(stack)-1]
					if lp.blocks[n] {
						continue
					}
					lp.blocks[n] = true
					stack = append(stack, n.Preds...)
				}
			}
		}
	}
	// ordinal by source position of the head's first positioned instruction
	for _, lp := range li.list {
		lp.pos = loopPos(lp)
	}
	sort.Slice(li.list, func(i, j int) bool { return li.list[i].pos < li.list[j].pos })
	for i, lp := range li.list {
		lp.ordinal = i + 1
	}
	m.loopInfo[fn] = li
	return li
}

func loopPos(lp *Loop) token.Pos {
	best := token.NoPos
	for b := range lp.blocks {
		for _, ins := range b.Instrs {
			if p := ins.Pos(); p.IsValid() && (best == token.NoPos || p < best) {
				best = p
			}
		}
	}
	return best
}

// divConst eliminates a division by a positive non-power-of-two literal:
// q and r are fresh and constrained by x = q*c + r (truncated division), which
// determines them uniquely without the solver having to bit-blast a divider.
func (m *Machine) divConst(st *State, x, d Term, signed bool) (q, r Term, ok bool) {
	if !d.IsConst() || x.IsConst() {
		return
	}
	w := x.Sort.Width()
	c := d.C
	if signed {
		c = signedW(c, w)
	}
	if c.Sign() <= 0 || new(big.Int).And(c, new(big.Int).Sub(c, big.NewInt(1))).Sign() == 0 {
		return
	}
	key := fmt.Sprintf("%s/%s/%v", x.S, d.S, signed)
	if qr, hit := m.divCache[key]; hit {
		return qr[0], qr[1], true
	}
	q = m.syms.fresh("quo", x.Sort)
	r = m.syms.fresh("rem", x.Sort)
	C := BVLit(c, w)
	zero := BVLitI(0, w)
	// the defining facts are attached to the symbols (valid on every path)
	if signed {
		max := new(big.Int).Sub(new(big.Int).Lsh(big.NewInt(1), uint(w-1)), big.NewInt(1))
		min := new(big.Int).Neg(new(big.Int).Lsh(big.NewInt(1), uint(w-1)))
		m.addFact(q.S, And(
			Eq(x, BVAdd(BVMul(q, C), r)),
			BVSlt(r, C), BVSgt(r, BVNeg(C)),
			Or(Eq(r, zero), Eq(BVSlt(r, zero), BVSlt(x, zero))),
			BVSle(q, BVLit(new(big.Int).Quo(max, c), w)), BVSge(q, BVLit(new(big.Int).Quo(min, c), w))))
	} else {
		max := new(big.Int).Sub(new(big.Int).Lsh(big.NewInt(1), uint(w)), big.NewInt(1))
		m.addFact(q.S, And(Eq(x, BVAdd(BVMul(q, C), r)), BVUlt(r, C), BVUle(q, BVLit(new(big.Int).Quo(max, c), w))))
	}
	m.addFact(r.S, Eq(q, q)) // ties r to q so that the facts of q are included whenever r occurs
	m.divCache[key] = [2]Term{q, r}
	return q, r, true
}

// evalInit runs the package initialiser symbolically (straight-line part) so
// that package-level variables have their initial values.  With the package
// frame obligations (no function stores to them) these values are invariant.
func (m *Machine) evalInit() {
	fn := m.pkg.Func("init")
	if fn == nil || len(fn.Blocks) < 2 {
		return
	}
	m.cur = &runCtx{fn: fn, key: "init", params: map[string]Value{}, ptypes: map[string]types.Type{}, noSafety: true, freshTerms: map[string]bool{}}
	st := &State{mem: map[cellKey]Value{}, ghost: map[string]Value{}}
	fr := &Frame{fn: fn, regs: map[ssa.Value]Value{}, active: map[*ssa.BasicBlock]*loopCtx{}}
	c := &Config{st: st, top: fr}
	for _, b := range fn.Blocks {
		if b.Comment != "init.start" {
			continue
		}
		fr.block = b
		for _, ins := range b.Instrs {
			func() {
				defer func() {
					if r := recover(); r != nil {
						if _, ok := r.(unsupported); !ok {
							panic(r)
						}
					}
				}()
				switch x := ins.(type) {
				case *ssa.Call:
					if callee := x.Common().StaticCallee(); callee != nil && (callee.Name() == "init" || strings.HasPrefix(callee.Name(), "init#")) {
						return
					}
					m.doCall(c, x)
				case *ssa.Store:
					if p, ok := m.operand(c, x.Addr).(*PtrV); ok {
						m.store(st, p, m.operand(c, x.Val))
					}
				case ssa.Value:
					v, _ := m.evalValue(c, x)
					if v != nil {
						fr.regs[x] = v
					}
				}
			}()
		}
	}
	for k, v := range st.mem {
		m.globalMem[k] = v
	}
	m.cur = nil
}

// fieldOfElem: field of an element of an array of structs (only []ClassDef occurs).
func (m *Machine) fieldOfElem(st *State, el Term, p *PtrV, typ types.Type) Value {
	if el.Sort == "ClassDefV" && len(p.Path) == 1 {
		switch p.Path[0] {
		case 0:
			return app(SStr, "cd.name", el)
		case 1:
			return m.unpackSlice(st, app("StrSeq", "cd.fields", el), types.Typ[types.String])
		}
	}
	m.unsup("field %v of array element of sort %s", p.Path, el.Sort)
	return nil
}

type deferred struct {
	ins  *ssa.Defer
	fn   Value
	args []Value
}

func (m *Machine) runDeferred(c *Config, d deferred) (*Config, []*Config) {
	fv, ok := d.fn.(*FuncV)
	if !ok || fv.Fn == nil {
		m.unsup("deferred call of a non-closure")
	}
	return m.inlineCall(c, d.ins, fv.Fn, d.args, fv.Bind)
}
