package main

// Interfaces, type assertions, strings<->slices, maps, channels.

import (
	"fmt"
	"go/token"
	"go/types"
	"regexp"
	"strings"

	"golang.org/x/tools/go/ssa"
)

var aliasRe = regexp.MustCompile(`\b(byte|rune)\b`)

// typeConstant returns the RT constant standing for a Go type (distinct per type).
func (m *Machine) typeConstant(t types.Type) Term {
	ts := typeString(t)
	// byte and rune are aliases: one constant per identical type
	ts = aliasRe.ReplaceAllStringFunc(ts, func(w string) string {
		if w == "byte" {
			return "uint8"
		}
		return "int32"
	})
	name := "T." + sanitize(ts)
	if tc, ok := m.typeConst[name]; ok {
		return tc
	}
	tc := m.syms.named(name, SRT)
	id := len(m.typeConst) + 1
	m.typeConst[name] = tc
	// distinctness through an injective id; kind through the kind table
	m.addFact(name, Eq(app(SBV64, "rt.id", tc), BVLitI(int64(id), 64)))
	if k := reflectKind(t); k >= 0 {
		m.addFact(name, Eq(app(SBV64, "rt.kind", tc), BVLitI(int64(k), 64)))
	}
	return tc
}

// reflect.Kind numbering
func reflectKind(t types.Type) int {
	switch u := t.Underlying().(type) {
	case *types.Basic:
		switch u.Kind() {
		case types.Bool:
			return 1
		case types.Int:
			return 2
		case types.Int8:
			return 3
		case types.Int16:
			return 4
		case types.Int32:
			return 5
		case types.Int64:
			return 6
		case types.Uint:
			return 7
		case types.Uint8:
			return 8
		case types.Uint16:
			return 9
		case types.Uint32:
			return 10
		case types.Uint64:
			return 11
		case types.Uintptr:
			return 12
		case types.Float32:
			return 13
		case types.Float64:
			return 14
		case types.Complex64:
			return 15
		case types.Complex128:
			return 16
		case types.String:
			return 24
		case types.UnsafePointer:
			return 26
		}
	case *types.Array:
		return 17
	case *types.Chan:
		return 18
	case *types.Signature:
		return 19
	case *types.Interface:
		return 20
	case *types.Map:
		return 21
	case *types.Pointer:
		return 22
	case *types.Slice:
		return 23
	case *types.Struct:
		return 25
	}
	return -1
}

func payloadFn(s Sort) string {
	switch {
	case s == SBool:
		return "i.bool"
	case s.IsBV():
		return fmt.Sprintf("i.bv%d", s.Width())
	case s == SF32:
		return "i.f32"
	case s == SF64:
		return "i.f64"
	case s == SStr:
		return "i.str"
	case s == SRV:
		return "i.rv"
	case s == STime:
		return "i.time"
	case s == SBytes:
		return "i.bytes"
	}
	return ""
}

func (m *Machine) makeInterface(c *Config, x *ssa.MakeInterface) Value {
	st := c.st
	v := m.operand(c, x.X)
	xt := x.X.Type()
	if isErrorType(x.Type()) {
		return m.newError(st, "err")
	}
	if m.sortOf(x.Type()) != SIface {
		// non-empty interface other than error: opaque identity
		o := m.syms.fresh("iface."+shortName(typeString(xt)), SObj)
		m.ifacePayload[o.S] = v
		return o
	}
	iv := m.syms.fresh("iv", SIface)
	st.assume(Not(Eq(iv, Sym("iface.nil", SIface))))
	st.assume(Eq(app(SRT, "i.type", iv), m.typeConstant(xt)))
	m.ifacePayload[iv.S] = v
	switch pv := v.(type) {
	case Term:
		if fn := payloadFn(pv.Sort); fn != "" {
			st.assume(Eq(app(pv.Sort, fn, iv), pv))
		}
	case *SliceV:
		if pv.Obj.Elem == SBV8 {
			st.assume(Eq(app(SBytes, "i.bytes", iv), m.packTerm(st, pv, SBytes)))
		}
	}
	return iv
}

func (m *Machine) changeInterface(c *Config, x *ssa.ChangeInterface) Value {
	v := m.operand(c, x.X)
	from, to := m.sortOf(x.X.Type()), m.sortOf(x.Type())
	if from == to {
		return v
	}
	t := v.(Term)
	c.st.abstract = true
	r := m.syms.fresh("chgiface", to)
	if pv, ok := m.ifacePayload[t.S]; ok {
		m.ifacePayload[r.S] = pv
	}
	// nil-ness is preserved
	c.st.assume(Eq(Eq(t, m.zeroTerm(from)), Eq(r, m.zeroTerm(to))))
	return r
}

func (m *Machine) typeAssert(c *Config, x *ssa.TypeAssert) Value {
	st := c.st
	v := m.operand(c, x.X)
	t, ok := v.(Term)
	if !ok {
		m.unsup("type assertion on %T", v)
	}
	at := x.AssertedType
	var okT Term
	var val Value
	_, toIface := at.Underlying().(*types.Interface)
	switch {
	case t.Sort == SIface && !toIface:
		okT = And(Not(Eq(t, Sym("iface.nil", SIface))), Eq(app(SRT, "i.type", t), m.typeConstant(at)))
		if pv, ok := m.ifacePayload[t.S]; ok && sameShape(m, pv, at) {
			val = pv
		} else if s := m.sortOf(at); s != "" && payloadFn(s) != "" {
			val = app(s, payloadFn(s), t)
		} else if sl, isSl := at.Underlying().(*types.Slice); isSl && m.elemSort(sl.Elem()) == SBV8 {
			val = m.unpackSlice(st, app(SBytes, "i.bytes", t), sl.Elem())
		} else if pt, isPtr := at.Underlying().(*types.Pointer); isPtr {
			// the pointer carried by an interface value is a function of that value
			val = m.assertedPtr(t, at, pt)
		} else {
			st.abstract = true
			val = m.freshValue("asserted", at)
		}
	case toIface:
		// assertion to an interface type: implementation relation is uninterpreted
		st.abstract = true
		switch t.Sort {
		case SIface:
			okT = And(Not(Eq(t, m.zeroTerm(t.Sort))), app(SBool, "rt.implements", app(SRT, "i.type", t), m.typeConstant(at)))
		case "Opaque":
			okT = And(Not(Eq(t, m.zeroTerm(t.Sort))), app(SBool, "rt.implements", app(SRT, "o.type", t), m.typeConstant(at)))
		default:
			// an error value (or another interface kept as one term): whether its dynamic type has the methods is unknown
			okT = And(Not(Eq(t, m.zeroTerm(t.Sort))), m.syms.fresh("implements", SBool))
		}
		s := m.sortOf(at)
		r := m.syms.fresh("asserted", s)
		if pv, ok := m.ifacePayload[t.S]; ok {
			m.ifacePayload[r.S] = pv
		}
		st.assume(Implies(okT, Not(Eq(r, m.zeroTerm(s)))))
		val = r
	default:
		// non-empty interface to concrete type
		st.abstract = true
		okT = m.syms.fresh("assertok", SBool)
		if pv, ok := m.ifacePayload[t.S]; ok && sameShape(m, pv, at) {
			val = pv
		} else {
			val = m.freshValue("asserted", at)
		}
	}
	if x.CommaOk {
		// on failure the value is the zero value
		if vt, isT := val.(Term); isT {
			val = Ite(okT, vt, m.zeroTerm(vt.Sort))
		}
		return Tuple{val, okT}
	}
	m.safety(c, "safe-assert", okT, x.Pos())
	st.assume(okT)
	return val
}

func sameShape(m *Machine, v Value, t types.Type) bool {
	s := m.sortOf(t)
	switch x := v.(type) {
	case Term:
		return s != "" && x.Sort == s
	case *SliceV:
		_, ok := t.Underlying().(*types.Slice)
		return ok
	case *StructV:
		return types.Identical(x.Typ, t)
	case *PtrV:
		_, ok := t.Underlying().(*types.Pointer)
		return ok
	}
	return false
}

func (m *Machine) fieldOfTerm(c *Config, t Term, x *ssa.Field) Value {
	c.st.abstract = true
	st := x.X.Type().Underlying().(*types.Struct)
	f := st.Field(x.Field)
	s := m.sortOf(f.Type())
	if s == "" {
		return m.freshValue("field."+f.Name(), f.Type())
	}
	return app(s, "fld."+sanitize(typeString(x.X.Type()))+"."+f.Name(), t)
}

// ---------- strings <-> slices ----------

func (m *Machine) stringOfSlice(c *Config, sl *SliceV) Value {
	st := c.st
	switch sl.Obj.Elem {
	case SBV8:
		if src, ok := m.provenance[sl.Obj]; ok && src.Sort == SStr && sl.Off.IsConst() && sl.Off.C.Sign() == 0 {
			// []byte(s) converted back unchanged is not tracked; fall through to the generic model
			_ = src
		}
		r := app(SStr, "s.ofbytes", m.packTerm(st, sl, SBytes))
		return r
	case SBV32:
		// string([]rune): the UTF-8 encoding of whole code points
		full, ok := m.objFull[sl.Obj]
		if !ok {
			full = m.packTerm(st, &SliceV{Obj: sl.Obj, Off: BVLitI(0, 64), Len: BVAdd(sl.Off, sl.Len), Cap: sl.Cap, Nil: TFalse}, SRunes)
		}
		r := app(SStr, "s.ofrunes", full, sl.Off, BVAdd(sl.Off, sl.Len))
		m.runeStr[r.S] = runeWindow{sl: sl}
		return r
	}
	m.unsup("string(%s slice)", sl.Obj.Elem)
	return nil
}

type runeWindow struct{ sl *SliceV }

// packWindow packs a slice as a sequence term; for shifted views the base
// array is used together with explicit (off,len) in the caller's term.
func (m *Machine) packWindow(st *State, sl *SliceV, s Sort) Term {
	return m.packTerm(st, sl, s)
}

func (m *Machine) sliceOfString(c *Config, s Term, ts *types.Slice) Value {
	st := c.st
	es := m.elemSort(ts.Elem())
	obj := m.newObj("conv", ts.Elem(), true, es)
	switch es {
	case SBV8:
		st.mem[cellKey{obj, ""}] = app(SArr8, "s.arr", s)
		ln := app(SBV64, "s.len", s)
		sl := &SliceV{Obj: obj, Off: BVLitI(0, 64), Len: ln, Cap: ln, Nil: TFalse}
		m.provenance[obj] = s
		if rw, ok := m.runeStr[s.S]; ok {
			// []byte(string(runes[a:b])): a TRunes token over the full rune sequence
			base := rw.sl
			full, ok := m.objFull[base.Obj]
			if !ok {
				full = m.packTerm(st, &SliceV{Obj: base.Obj, Off: BVLitI(0, 64), Len: BVAdd(base.Off, base.Len), Cap: base.Cap, Nil: TFalse}, SRunes)
			}
			m.sliceTok[obj] = app(STok, "TRunes", full, base.Off, BVAdd(base.Off, base.Len))
		} else {
			m.sliceTok[obj] = app(STok, "TStrBytes", s)
		}
		return sl
	case SBV32:
		rs := app(SRunes, "s.runes", s)
		st.mem[cellKey{obj, ""}] = app(SArr32, "rarr", rs)
		ln := app(SBV64, "rlen", rs)
		m.objFull[obj] = rs
		st.assume(BVUle(ln, app(SBV64, "s.len", s)))
		st.assume(Implies(Not(Eq(app(SBV64, "s.len", s), BVLitI(0, 64))), Not(Eq(ln, BVLitI(0, 64)))))
		st.assume(BVUle(app(SBV64, "s.len", s), BVLitI(1<<40, 64)))
		return &SliceV{Obj: obj, Off: BVLitI(0, 64), Len: ln, Cap: ln, Nil: TFalse}
	}
	m.unsup("[]%s(string)", es)
	return nil
}

// ---------- allocation bound (C14 resource clause) ----------

func (m *Machine) allocBound(c *Config, n Term, pos token.Pos) {
	if m.cur == nil || !m.cur.allocCheck {
		return
	}
	// only allocations made by the functions that read the wire are sized by declared lengths
	fk := funcKey(c.top.fn)
	if !(strings.Contains(fk, "(*Decoder)") || strings.HasPrefix(fk, "decode") || fk == "readBytes") {
		return
	}
	if n.IsConst() {
		return
	}
	if n.Sort != SBV64 {
		n = BVConv(n, true, 64)
	}
	// every allocation whose size comes from the wire must be bounded by the
	// remaining input (each element costs at least one octet) or a fixed constant
	// (remaining input) + 2 x (input consumed by this call so far) + 64 Ki: geometric growth of a
	// list whose elements have really been read is within it, a declared length alone is not
	_, total, p := m.inputState(c.st)
	remaining := BVSub(total, p)
	bound := BVAdd(remaining, BVLitI(65536, 64))
	if m.cur.old != nil {
		if p0, ok := m.ghost(m.cur.old, "@pos").(Term); ok {
			consumed := BVSub(p, p0)
			bound = BVAdd(bound, BVAdd(consumed, consumed))
		}
	}
	site := ""
	if pos.IsValid() {
		pp := m.fset.Position(pos)
		site = fmt.Sprintf("%s:%d", shortFile(pp.Filename), pp.Line)
	}
	m.emit(c, "alloc-bound", c.top.fn.Name(), []string{"C14"}, BVSle(n, bound), site, "")
}

// ---------- maps ----------
// A Go map is a reference (MapRef); its contents live in the state keyed by
// the reference term: has : Array K Bool, get : Array K V, size : BV64.

type mapContent struct {
	has, get, size Term
	ksort, vsort   Sort
}

func (m *Machine) mapSorts(t types.Type) (Sort, Sort) {
	mt := t.Underlying().(*types.Map)
	ks := m.elemSort(mt.Key())
	if _, isPtr := mt.Key().Underlying().(*types.Basic); isPtr && mt.Key().Underlying().(*types.Basic).Kind() == types.UnsafePointer {
		ks = SBV64
	}
	if typeString(mt.Key()) == "_refKey" {
		ks = Sort("RefKeyV") // struct key {addr unsafe.Pointer; typ reflect.Type; len int}
	}
	vs := m.elemSort(mt.Elem())
	if typeString(mt.Elem()) == "_refElem" {
		vs = Sort("RefElemV")
	}
	return ks, vs
}

func (m *Machine) mapState(st *State, ref Term, t types.Type) *mapContent {
	k := "@map:" + ref.S
	if v, ok := st.ghost[k]; ok {
		return v.(*mapContent)
	}
	ks, vs := m.mapSorts(t)
	mc := &mapContent{
		has:   m.syms.named("map.has0."+sanitize(ref.S), ArraySort(ks, SBool)),
		get:   m.syms.named("map.get0."+sanitize(ref.S), ArraySort(ks, vs)),
		size:  app(SBV64, "map.size0", ref),
		ksort: ks, vsort: vs,
	}
	_, all := st.ghost["@maphavocall"]
	if _, fresh := st.ghost["@mapfresh:"+ref.S]; fresh || all {
		mc.has = m.syms.fresh("map.has", ArraySort(ks, SBool))
		mc.get = m.syms.fresh("map.get", ArraySort(ks, vs))
		mc.size = m.syms.fresh("map.size", SBV64)
	}
	st.assume(And(BVSge(mc.size, BVLitI(0, 64)), BVSle(mc.size, BVLitI(1<<40, 64))))
	st.ghost[k] = mc
	return mc
}

func (m *Machine) mapKeyTerm(st *State, v Value, ks Sort) Term {
	if sv, ok := v.(*StructV); ok && ks == "RefKeyV" && len(sv.F) == 3 {
		return app(ks, "mkrefkey", m.mapKeyTerm(st, sv.F[0], SBV64), sv.F[1].(Term), sv.F[2].(Term))
	}
	switch x := v.(type) {
	case Term:
		if x.Sort == ks {
			return x
		}
	case *PtrV:
		if ks == SBV64 { // unsafe.Pointer keys: the address of the object
			if x.Obj == nil {
				return BVLitI(0, 64)
			}
			return m.syms.named(fmt.Sprintf("addr.%d", x.Obj.ID), SBV64)
		}
	}
	return m.packTerm(st, v, ks)
}

func (m *Machine) makeMap(c *Config, x *ssa.MakeMap) Value {
	ref := m.syms.fresh("map", "MapRef")
	c.st.assume(Not(Eq(ref, Sym("map.nil", "MapRef"))))
	ks, vs := m.mapSorts(x.Type())
	mc := &mapContent{
		has:   Term{S: fmt.Sprintf("((as const %s) false)", ArraySort(ks, SBool)), Sort: ArraySort(ks, SBool)},
		get:   m.syms.fresh("map.get", ArraySort(ks, vs)),
		size:  BVLitI(0, 64),
		ksort: ks, vsort: vs,
	}
	c.st.ghost["@map:"+ref.S] = mc
	if m.cur != nil {
		m.cur.freshTerms[ref.S] = true
	}
	return ref
}

func (m *Machine) mapUpdate(c *Config, x *ssa.MapUpdate) {
	st := c.st
	ref := m.termOf(c, x.Map)
	m.safety(c, "safe-nilmap", Not(Eq(ref, Sym("map.nil", "MapRef"))), x.Pos())
	mc := m.mapState(st, ref, x.Map.Type())
	k := m.mapKeyTerm(st, m.operand(c, x.Key), mc.ksort)
	v := m.valueAsTerm(st, m.operand(c, x.Value), mc.vsort)
	had := Select(mc.has, k)
	n := &mapContent{ksort: mc.ksort, vsort: mc.vsort}
	n.has = Store(mc.has, k, TTrue)
	n.get = Store(mc.get, k, v)
	n.size = Ite(had, mc.size, BVAdd(mc.size, BVLitI(1, 64)))
	st.ghost["@map:"+ref.S] = n
	m.mapWrites = append(m.mapWrites, mapWrite{fn: c.top.fn, pos: x.Pos(), ref: ref})
}

type mapWrite struct {
	fn  *ssa.Function
	pos token.Pos
	ref Term
}

func (m *Machine) valueAsTerm(st *State, v Value, s Sort) Term {
	if t, ok := v.(Term); ok && t.Sort == s {
		return t
	}
	if sv, ok := v.(*StructV); ok && s == "RefElemV" && len(sv.F) == 2 {
		return app(s, "mkrefelem", sv.F[0].(Term), sv.F[1].(Term))
	}
	return m.packTerm(st, v, s)
}

// mapDelete: delete(m, k) - no-op on a nil map or a missing key
func (m *Machine) mapDelete(c *Config, mv, kv ssa.Value) {
	st := c.st
	ref := m.termOf(c, mv)
	old := m.mapState(st, ref, mv.Type())
	k := m.mapKeyTerm(st, m.operand(c, kv), old.ksort)
	had := And(Not(Eq(ref, Sym("map.nil", "MapRef"))), Select(old.has, k))
	st.ghost["@map:"+ref.S] = &mapContent{
		has:   Store(old.has, k, TFalse),
		get:   old.get,
		size:  Ite(had, BVSub(old.size, BVLitI(1, 64)), old.size),
		ksort: old.ksort, vsort: old.vsort,
	}
}

func (m *Machine) lookup(c *Config, x *ssa.Lookup) Value {
	st := c.st
	if b, ok := x.X.Type().Underlying().(*types.Basic); ok && b.Info()&types.IsString != 0 {
		s := m.termOf(c, x.X)
		idx := BVConv(m.termOf(c, x.Index), isSigned(x.Index.Type()), 64)
		ln := app(SBV64, "s.len", s)
		m.safety(c, "safe-index", BVUlt(idx, ln), x.Pos())
		st.assume(BVUlt(idx, ln))
		return app(SBV8, "s.at", s, idx)
	}
	ref := m.termOf(c, x.X)
	mc := m.mapState(st, ref, x.X.Type())
	k := m.mapKeyTerm(st, m.operand(c, x.Index), mc.ksort)
	has := And(Not(Eq(ref, Sym("map.nil", "MapRef"))), Select(mc.has, k))
	mt := x.X.Type().Underlying().(*types.Map)
	raw := Select(mc.get, k)
	var val Value
	if m.sortOf(mt.Elem()) == mc.vsort {
		val = Ite(has, raw, m.zeroTerm(mc.vsort))
	} else if mc.vsort == "RefElemV" {
		val = &StructV{Typ: mt.Elem(), F: []Value{app(SBV64, "re.kind", raw), app(SBV64, "re.index", raw)}}
	} else {
		st.abstract = true
		val = m.freshValue("mapval", mt.Elem())
	}
	if x.CommaOk {
		return Tuple{val, has}
	}
	return val
}

func (m *Machine) mapLen(c *Config, ref Term) Term {
	for k, v := range c.st.ghost {
		if k == "@map:"+ref.S {
			return v.(*mapContent).size
		}
	}
	// unknown map: materialise with an arbitrary size; key/value sorts are not needed for len
	sz := m.syms.named("maplen."+sanitize(ref.S), SBV64)
	c.st.assume(BVSge(sz, BVLitI(0, 64)))
	return sz
}

// ---------- channels (pool.go only) ----------
// A buffered channel is modelled sequentially: length, capacity, counters of
// completed receives / sends and the last value received / sent.  A
// non-blocking select takes the communication case iff it can proceed at once.

type chanState struct {
	len, cap, recvs, sends Term
	lastRecv, lastSent     Value
}

func (m *Machine) chanState(st *State, ch Term) *chanState {
	k := "@ch:" + ch.S
	if v, ok := st.ghost[k]; ok {
		return v.(*chanState)
	}
	cs := &chanState{
		len:   m.syms.named("chlen0."+sanitize(ch.S), SBV64),
		recvs: BVLitI(0, 64), sends: BVLitI(0, 64),
	}
	if cp, ok := m.chanCaps[ch.S]; ok {
		cs.cap = cp
	} else {
		cs.cap = m.syms.named("chcap."+sanitize(ch.S), SBV64)
	}
	st.assume(And(BVSge(cs.len, BVLitI(0, 64)), BVSle(cs.len, cs.cap)))
	st.ghost[k] = cs
	if m.cur != nil && m.cur.old != nil && m.cur.old != st {
		if _, ok := m.cur.old.ghost[k]; !ok {
			cp := *cs
			m.cur.old.ghost[k] = &cp
		}
	}
	return cs
}

func (m *Machine) makeChan(c *Config, x *ssa.MakeChan) Value {
	ch := m.syms.fresh("chan", SObj)
	sz := BVConv(m.termOf(c, x.Size), isSigned(x.Size.Type()), 64)
	m.safety(c, "safe-make", BVSge(sz, BVLitI(0, 64)), x.Pos())
	m.chanCaps[ch.S] = sz
	c.st.assume(Not(Eq(ch, Sym("opaque.nil", SObj))))
	c.st.ghost["@ch:"+ch.S] = &chanState{len: BVLitI(0, 64), cap: sz, recvs: BVLitI(0, 64), sends: BVLitI(0, 64)}
	if m.cur != nil {
		m.cur.freshTerms[ch.S] = true
	}
	return ch
}

func (m *Machine) selectOp(c *Config, x *ssa.Select) (Value, []*Config) {
	m.emit(c, "nonblocking", c.top.fn.Name(), []string{"C17"}, mkBool(!x.Blocking), m.site(x), "every select has a default case")
	if len(x.States) != 1 {
		m.unsup("select with %d communication cases", len(x.States))
	}
	sst := x.States[0]
	ch := m.termOf(c, sst.Chan)
	cs := m.chanState(c.st, ch)
	one := BVLitI(1, 64)
	mk := func(idx int64, ok Term, recv Value) Value {
		t := Tuple{BVLitI(idx, 64), ok}
		if sst.Dir == types.RecvOnly {
			t = append(t, recv)
		}
		return t
	}
	et := sst.Chan.Type().Underlying().(*types.Chan).Elem()
	// the case that cannot proceed (default branch); for a blocking select the path simply ends
	c2 := c.clone()
	var canGo Term
	if sst.Dir == types.RecvOnly {
		canGo = BVSgt(cs.len, BVLitI(0, 64))
	} else {
		canGo = BVSlt(cs.len, cs.cap)
	}
	// proceed
	c.st.assume(canGo)
	ncs := *cs
	var res Value
	if sst.Dir == types.RecvOnly {
		v := m.freshValue("recv", et)
		ncs.len = BVSub(cs.len, one)
		ncs.recvs = BVAdd(cs.recvs, one)
		ncs.lastRecv = v
		res = mk(0, TTrue, v)
	} else {
		ncs.len = BVAdd(cs.len, one)
		ncs.sends = BVAdd(cs.sends, one)
		ncs.lastSent = m.operand(c, sst.Send)
		res = mk(0, TFalse, nil)
	}
	c.st.ghost["@ch:"+ch.S] = &ncs
	// default
	c2.st.assume(Not(canGo))
	var forks []*Config
	if !x.Blocking && !c2.st.dead {
		c2.top.regs[x] = mk(-1, TFalse, m.zeroValueSafe(et))
		forks = append(forks, c2)
	}
	return res, forks
}

func (m *Machine) zeroValueSafe(t types.Type) Value {
	defer func() { recover() }()
	return m.zeroValue(t)
}

// IterV is the iterator of a range over a map or a string.  Nothing is known about the order or the number of
// iterations: every Next yields an arbitrary "more" flag and, when true, an arbitrary entry of the map as it is
// at that moment (an arbitrary position and rune of the string).  That over-approximates every real iteration.
type IterV struct {
	X   ssa.Value
	Src Value
}

func (m *Machine) rangeOp(c *Config, x *ssa.Range) Value {
	return &IterV{X: x.X, Src: m.operand(c, x.X)}
}

func (m *Machine) nextOp(c *Config, x *ssa.Next) (Value, []*Config) {
	it, ok := m.operand(c, x.Iter).(*IterV)
	if !ok {
		m.unsup("next on an unknown iterator")
	}
	st := c.st
	more := m.syms.fresh("range.more", SBool)
	tup := x.Type().(*types.Tuple)
	valid := func(t types.Type) bool {
		b, isB := t.(*types.Basic)
		return !(isB && b.Kind() == types.Invalid)
	}
	if x.IsString {
		s := it.Src.(Term)
		idx := m.syms.fresh("range.i", SBV64)
		st.assume(Implies(more, And(BVSge(idx, BVLitI(0, 64)), BVSlt(idx, app(SBV64, "s.len", s)))))
		var r Value
		if valid(tup.At(2).Type()) {
			r = m.syms.fresh("range.r", SBV32)
		}
		return Tuple{more, idx, r}, nil
	}
	mt := it.X.Type().Underlying().(*types.Map)
	ref := it.Src.(Term)
	mc := m.mapState(st, ref, it.X.Type())
	var key, val Value
	if m.sortOf(mt.Key()) == mc.ksort {
		k := m.syms.fresh("range.k", mc.ksort)
		st.assume(Implies(more, And(Not(Eq(ref, Sym("map.nil", "MapRef"))), Select(mc.has, k))))
		key = k
		if valid(tup.At(2).Type()) {
			if m.sortOf(mt.Elem()) == mc.vsort {
				val = Select(mc.get, k)
			} else {
				st.abstract = true
				val = m.freshValue("range.v", mt.Elem())
			}
		}
	} else {
		st.abstract = true
		if valid(tup.At(1).Type()) {
			key = m.freshValue("range.k", mt.Key())
		}
		if valid(tup.At(2).Type()) {
			val = m.freshValue("range.v", mt.Elem())
		}
	}
	if !valid(tup.At(1).Type()) {
		key = nil
	}
	return Tuple{more, key, val}, nil
}

// typeByString resolves the type names contracts may mention in istype().
func (m *Machine) typeByString(name string) types.Type {
	switch name {
	case "[]byte":
		return types.NewSlice(types.Typ[types.Uint8])
	case "string":
		return types.Typ[types.String]
	case "bool":
		return types.Typ[types.Bool]
	case "int32":
		return types.Typ[types.Int32]
	case "int64":
		return types.Typ[types.Int64]
	case "float64":
		return types.Typ[types.Float64]
	}
	lookup := func(pkg *types.Package, n string) types.Type {
		if pkg == nil {
			return nil
		}
		if o := pkg.Scope().Lookup(n); o != nil {
			return o.Type()
		}
		return nil
	}
	ptr := false
	if strings.HasPrefix(name, "*") {
		ptr = true
		name = name[1:]
	}
	var t types.Type
	if i := strings.LastIndex(name, "."); i >= 0 {
		for _, imp := range m.pkg.Pkg.Imports() {
			if imp.Name() == name[:i] || imp.Path() == name[:i] {
				t = lookup(imp, name[i+1:])
			}
		}
	} else {
		t = lookup(m.pkg.Pkg, name)
	}
	if t != nil && ptr {
		t = types.NewPointer(t)
	}
	return t
}

// assertedPtr: x.(*T) yields the same pointer for the same interface value.
func (m *Machine) assertedPtr(x Term, at types.Type, pt *types.Pointer) *PtrV {
	// R.iface is the contract-level alias of the generated name of (reflect.Value).Interface
	key := strings.ReplaceAll(stripZeroIte(x.S), "(R.iface ", "(X._reflect.Value_.Interface.r0 ") + "|" + typeString(at)
	obj, ok := m.assertObjs[key]
	if !ok {
		obj = m.newObj("ptrof."+sanitize(x.S), pt.Elem(), false, "")
		obj.Sym = true
		m.assertObjs[key] = obj
	}
	return &PtrV{Obj: obj, Typ: at}
}

// stripZeroIte rewrites (ite c a <zero>) to a: the value of a comma-ok assertion
// is only meaningful where ok holds.
func stripZeroIte(t string) string {
	es, err := readSExps(t)
	if err != nil || len(es) != 1 {
		return t
	}
	var rw func(e *SExp) *SExp
	rw = func(e *SExp) *SExp {
		if !e.IsL {
			return e
		}
		if len(e.List) == 4 && e.List[0].Atom == "ite" && !e.List[3].IsL {
			switch e.List[3].Atom {
			case "rv.zero", "iface.nil", "opaque.nil", "rt.nil":
				return rw(e.List[2])
			}
		}
		n := &SExp{IsL: true}
		for _, c := range e.List {
			n.List = append(n.List, rw(c))
		}
		return n
	}
	return rw(es[0]).String()
}
