; Structural productions of the encoder (DESIGN K2), stated over the level-local event trace @tr:
; literal tag octets (TByte), leaf values (TInt, TStr, ...) and complete nested values (TVal).
;   list   ::= x58 int value{n} | [x70-77] type value{n} | 'V' type int value{n}
;   map    ::= 'H' (value value)* 'Z' | 'M' type (value value)* 'Z'
;   object ::= 'C' string int string{n}   then   [x60-x6f] value{n} | 'O' int value{n}
;   ref    ::= x51 int
(define-fun G.opens ((t (_ BitVec 8))) Bool
  (or (and (bvuge t #x55) (bvule t #x58)) (and (bvuge t #x70) (bvule t #x7f)) (= t #x48) (= t #x4d) (= t #x4f) (and (bvuge t #x60) (bvule t #x6f))))
(declare-fun R.unpackPtr (RV) RV)
(declare-fun R.unpackPtrValue (RV) RV)
(declare-fun R.unpackPtrType (RT) RT)
(declare-fun R.derefMapPtr (RV) RV)
(declare-fun R.typeName (RT) Str)
(declare-fun R.rootElemName (Str) Str)
(declare-fun R.lowerName (Str) Str)
(declare-fun R.capName (Str) Str)
(declare-fun R.mapKeys (RV) (Array (_ BitVec 64) RV))
(declare-fun R.mapLen (RV) (_ BitVec 64))
(define-fun R.mapKey ((v RV) (i (_ BitVec 64))) RV (select (R.mapKeys v) i))
(define-fun R.mapIndex ((v RV) (k RV)) RV (X._reflect.Value_.MapIndex.r0 v k))
; element events of a list: TVal(element i) for i < n, in order
(define-fun-rec G.elems ((s Stream) (v RV) (i (_ BitVec 64))) Stream
  (ite (bvsle i #x0000000000000000) s
       (snoc (G.elems s v (bvsub i #x0000000000000001)) (TVal (R.iface (R.index v (bvsub i #x0000000000000001)))))))
(define-fun G.listHdrUntyped ((s Stream) (n (_ BitVec 64))) Stream (snoc (snoc s (TByte #x58)) (TInt ((_ extract 31 0) n))))
(define-fun G.listHdrTyped ((s Stream) (tn Str) (n (_ BitVec 64))) Stream
  (ite (bvsle n #x0000000000000007)
       (snoc (snoc s (TByte (bvadd #x70 ((_ extract 7 0) n)))) (TStr tn))
       (snoc (snoc (snoc s (TByte #x56)) (TStr tn)) (TInt ((_ extract 31 0) n)))))
; the full-width header is legal for every length (the compact one is the encoder's choice for short lists, not a demand of the property)
(define-fun G.listHdrTypedLong ((s Stream) (tn Str) (n (_ BitVec 64))) Stream
  (snoc (snoc (snoc s (TByte #x56)) (TStr tn)) (TInt ((_ extract 31 0) n))))
; field-name events of a class definition: TStr(lower(field i)) for i < n
(define-fun-rec G.fieldNames ((s Stream) (t RT) (i (_ BitVec 64))) Stream
  (ite (bvsle i #x0000000000000000) s
       (snoc (G.fieldNames s t (bvsub i #x0000000000000001)) (TStr (R.lowerName (R.tFieldName t (bvsub i #x0000000000000001)))))))
(define-fun G.clsDef ((s Stream) (name Str) (t RT)) Stream
  (G.fieldNames (snoc (snoc (snoc s (TByte #x43)) (TStr name)) (TInt ((_ extract 31 0) (R.tNumField t)))) t (R.tNumField t)))
; instance tag: x60+k for k <= 15, 'O' int(k) otherwise
(define-fun G.instTag ((s Stream) (k (_ BitVec 64))) Stream
  (ite (and (bvsge k #x0000000000000000) (bvsle k #x000000000000000f))
       (snoc s (TByte (bvadd #x60 ((_ extract 7 0) k))))
       (snoc (snoc s (TByte #x4f)) (TInt ((_ extract 31 0) k)))))
; the full-width instance header 'O' int is legal for every class index
(define-fun G.instTagLong ((s Stream) (k (_ BitVec 64))) Stream (snoc (snoc s (TByte #x4f)) (TInt ((_ extract 31 0) k))))
; field-value events of an object instance
(define-fun-rec G.fieldVals ((s Stream) (v RV) (i (_ BitVec 64))) Stream
  (ite (bvsle i #x0000000000000000) s
       (snoc (G.fieldVals s v (bvsub i #x0000000000000001)) (TVal (R.iface (R.field v (bvsub i #x0000000000000001)))))))
; entries of an untyped map in the order of MapKeys
(define-fun-rec G.mapEntries ((s Stream) (v RV) (i (_ BitVec 64))) Stream
  (ite (bvsle i #x0000000000000000) s
       (snoc (snoc (G.mapEntries s v (bvsub i #x0000000000000001)) (TVal (R.iface (R.mapKey v (bvsub i #x0000000000000001)))))
             (TVal (R.iface (R.mapIndex v (R.mapKey v (bvsub i #x0000000000000001))))))))
(define-fun G.ref ((s Stream) (k (_ BitVec 64))) Stream (snoc (snoc s (TByte #x51)) (TInt ((_ extract 31 0) k))))
(define-fun G.mapHdr ((s Stream) (typed Bool) (name Str)) Stream (ite typed (snoc (snoc s (TByte #x4d)) (TStr name)) (snoc s (TByte #x48))))
