; string ::= x52 b1 b0 <utf8-data> string | 'S' b1 b0 <utf8-data> | [x00-x1f] <utf8-data> | [x30-x33] b0 <utf8-data>
; lengths count characters (code points here; see DESIGN C02 note on UTF-16 units), never octets.
; The encoder's rendering: non-final chunks of cs characters each (cs is the encoder's chunk-size constant in the tree
; under verification; any 0 < cs <= 65535 is legal), final chunk in the shortest header form.
(define-fun G.strChunk ((s Stream) (r Runes) (cs (_ BitVec 64)) (b (_ BitVec 64))) Stream
  (snoc (snoc (snoc (snoc s (TByte #x52)) (TByte ((_ extract 7 0) (bvlshr cs #x0000000000000008)))) (TByte ((_ extract 7 0) cs))) (TRunes r b (bvadd b cs))))
(define-fun-rec G.strChunksTo ((r Runes) (cs (_ BitVec 64)) (b (_ BitVec 64))) Stream
  (ite (bvsle b #x0000000000000000) emp (G.strChunk (G.strChunksTo r cs (bvsub b cs)) r cs (bvsub b cs))))
(define-fun G.strFinal ((s Stream) (r Runes) (b (_ BitVec 64)) (n (_ BitVec 64))) Stream
  (ite (bvule n #x000000000000001f)
       (snoc (snoc s (TByte ((_ extract 7 0) n))) (TRunes r b (bvadd b n)))
  (ite (bvule n #x00000000000003ff)
       (snoc (snoc (snoc s (TByte (bvadd #x30 ((_ extract 7 0) (bvlshr n #x0000000000000008))))) (TByte ((_ extract 7 0) n))) (TRunes r b (bvadd b n)))
       (snoc (snoc (snoc (snoc s (TByte #x53)) (TByte ((_ extract 7 0) (bvlshr n #x0000000000000008)))) (TByte ((_ extract 7 0) n))) (TRunes r b (bvadd b n))))))
; start of the final chunk for n >= 1 characters: the largest multiple of cs below n
(define-fun G.lastChunkStart ((n (_ BitVec 64)) (cs (_ BitVec 64))) (_ BitVec 64) (bvmul (bvudiv (bvsub n #x0000000000000001) cs) cs))
(define-fun G.strProd ((r Runes) (cs (_ BitVec 64))) Stream
  (G.strFinal (G.strChunksTo r cs (G.lastChunkStart (rlen r) cs)) r (G.lastChunkStart (rlen r) cs) (bvsub (rlen r) (G.lastChunkStart (rlen r) cs))))

; binary ::= x41 b1 b0 <binary-data> binary | 'B' b1 b0 <binary-data> | [x20-x2f] <binary-data> | [x34-x37] b0 <binary-data>
; The encoder's rendering: non-final chunks of cs octets (tag x41 in the 2.0 text; cs as for strings), final chunk 'B' or short form.
(define-fun G.binChunk ((s Stream) (v Bytes) (cs (_ BitVec 64)) (b (_ BitVec 64))) Stream
  (snoc (snoc (snoc (snoc s (TByte #x41)) (TByte ((_ extract 7 0) (bvlshr cs #x0000000000000008)))) (TByte ((_ extract 7 0) cs))) (TWin v b (bvadd b cs))))
(define-fun-rec G.binChunksTo ((v Bytes) (cs (_ BitVec 64)) (b (_ BitVec 64))) Stream
  (ite (bvsle b #x0000000000000000) emp (G.binChunk (G.binChunksTo v cs (bvsub b cs)) v cs (bvsub b cs))))
(define-fun G.binFinal ((s Stream) (v Bytes) (b (_ BitVec 64)) (n (_ BitVec 64))) Stream
  (ite (bvule n #x000000000000000f)
       (snoc (snoc s (TByte (bvadd #x20 ((_ extract 7 0) n)))) (TWin v b (bvadd b n)))
       (snoc (snoc (snoc (snoc s (TByte #x42)) (TByte ((_ extract 7 0) (bvlshr n #x0000000000000008)))) (TByte ((_ extract 7 0) n))) (TWin v b (bvadd b n)))))
(define-fun G.binProd ((v Bytes) (cs (_ BitVec 64))) Stream
  (G.binFinal (G.binChunksTo v cs (G.lastChunkStart (blen v) cs)) v (G.lastChunkStart (blen v) cs) (bvsub (blen v) (G.lastChunkStart (blen v) cs))))
