; string ::= x52 b1 b0 <utf8-data> string | 'S' b1 b0 <utf8-data> | [x00-x1f] <utf8-data> | [x30-x33] b0 <utf8-data>
; lengths count characters (code points here; see DESIGN C02 note on UTF-16 units), never octets.
; The encoder's rendering: non-final chunks of 2048 characters, final chunk in the shortest header form.
(define-fun G.strChunk ((s Stream) (r Runes) (b (_ BitVec 64))) Stream
  (snoc (snoc (snoc (snoc s (TByte #x52)) (TByte #x08)) (TByte #x00)) (TRunes r b (bvadd b #x0000000000000800))))
(define-fun-rec G.strChunksTo ((r Runes) (b (_ BitVec 64))) Stream
  (ite (bvsle b #x0000000000000000) emp (G.strChunk (G.strChunksTo r (bvsub b #x0000000000000800)) r (bvsub b #x0000000000000800))))
(define-fun G.strFinal ((s Stream) (r Runes) (b (_ BitVec 64)) (n (_ BitVec 64))) Stream
  (ite (bvule n #x000000000000001f)
       (snoc (snoc s (TByte ((_ extract 7 0) n))) (TRunes r b (bvadd b n)))
  (ite (bvule n #x00000000000003ff)
       (snoc (snoc (snoc s (TByte (bvadd #x30 ((_ extract 7 0) (bvlshr n #x0000000000000008))))) (TByte ((_ extract 7 0) n))) (TRunes r b (bvadd b n)))
       (snoc (snoc (snoc (snoc s (TByte #x53)) (TByte ((_ extract 7 0) (bvlshr n #x0000000000000008)))) (TByte ((_ extract 7 0) n))) (TRunes r b (bvadd b n))))))
; start of the final chunk for n >= 1 characters: the largest multiple of 2048 below n
(define-fun G.lastChunkStart ((n (_ BitVec 64))) (_ BitVec 64) (bvand (bvsub n #x0000000000000001) #xfffffffffffff800))
(define-fun G.strProd ((r Runes)) Stream
  (G.strFinal (G.strChunksTo r (G.lastChunkStart (rlen r))) r (G.lastChunkStart (rlen r)) (bvsub (rlen r) (G.lastChunkStart (rlen r)))))

; binary ::= x41 b1 b0 <binary-data> binary | 'B' b1 b0 <binary-data> | [x20-x2f] <binary-data> | [x34-x37] b0 <binary-data>
; The encoder's rendering: non-final chunks of 4096 octets (tag x41 in the 2.0 text), final chunk 'B' or short form.
(define-fun G.binChunk ((s Stream) (v Bytes) (b (_ BitVec 64))) Stream
  (snoc (snoc (snoc (snoc s (TByte #x41)) (TByte #x10)) (TByte #x00)) (TWin v b (bvadd b #x0000000000001000))))
(define-fun-rec G.binChunksTo ((v Bytes) (b (_ BitVec 64))) Stream
  (ite (bvsle b #x0000000000000000) emp (G.binChunk (G.binChunksTo v (bvsub b #x0000000000001000)) v (bvsub b #x0000000000001000))))
(define-fun G.binFinal ((s Stream) (v Bytes) (b (_ BitVec 64)) (n (_ BitVec 64))) Stream
  (ite (bvule n #x000000000000000f)
       (snoc (snoc s (TByte (bvadd #x20 ((_ extract 7 0) n)))) (TWin v b (bvadd b n)))
       (snoc (snoc (snoc (snoc s (TByte #x42)) (TByte ((_ extract 7 0) (bvlshr n #x0000000000000008)))) (TByte ((_ extract 7 0) n))) (TWin v b (bvadd b n)))))
(define-fun G.lastBinChunkStart ((n (_ BitVec 64))) (_ BitVec 64) (bvand (bvsub n #x0000000000000001) #xfffffffffffff000))
(define-fun G.binProd ((v Bytes)) Stream
  (G.binFinal (G.binChunksTo v (G.lastBinChunkStart (blen v))) v (G.lastBinChunkStart (blen v)) (bvsub (blen v) (G.lastBinChunkStart (blen v)))))
