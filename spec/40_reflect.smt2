; Reflection model R (DESIGN §3.3): reflect functions are uninterpreted functions of their
; arguments (declared here under the names the engine generates); the axioms below are the
; facts the reflect documentation states.  All of this is trusted (A-REFLECT).
(declare-fun X.reflect.ValueOf.r0 (Iface) RV)
(declare-fun X._reflect.Value_.Kind.r0 (RV) (_ BitVec 64))
(declare-fun X._reflect.Value_.Len.r0 (RV) (_ BitVec 64))
(declare-fun X._reflect.Value_.NumField.r0 (RV) (_ BitVec 64))
(declare-fun X._reflect.Value_.IsValid.r0 (RV) Bool)
(declare-fun X._reflect.Value_.Elem.r0 (RV) RV)
(declare-fun X._reflect.Value_.Type.r0 (RV) RT)
(declare-fun X._reflect.Value_.Interface.r0 (RV) Iface)
(declare-fun X._reflect.Value_.Index.r0 (RV (_ BitVec 64)) RV)
(declare-fun X._reflect.Value_.Field.r0 (RV (_ BitVec 64)) RV)
(declare-fun X._reflect.Value_.Int.r0 (RV) (_ BitVec 64))
(declare-fun X._reflect.Value_.Uint.r0 (RV) (_ BitVec 64))
(declare-fun X._reflect.Value_.Float.r0 (RV) (_ FloatingPoint 11 53))
(declare-fun X._reflect.Value_.Bool.r0 (RV) Bool)
(declare-fun X._reflect.Value_.String.r0 (RV) Str)
(declare-fun X._reflect.Value_.Pointer.r0 (RV) (_ BitVec 64))
(declare-fun X._reflect.Value_.MapIndex.r0 (RV RV) RV)
(declare-fun X._reflect.Value_.CanAddr.r0 (RV) Bool)
(declare-fun X._reflect.Value_.IsNil.r0 (RV) Bool)
(declare-fun X.reflect.Type.NumField.r0 (RT) (_ BitVec 64))
(declare-fun X.reflect.Type.Kind.r0 (RT) (_ BitVec 64))
(declare-fun X.reflect.Type.Name.r0 (RT) Str)
(declare-fun X.reflect.Type.Field.r0.Name (RT (_ BitVec 64)) Str)
(define-fun R.valueOf ((i Iface)) RV (X.reflect.ValueOf.r0 i))
(define-fun R.canAddr ((v RV)) Bool (X._reflect.Value_.CanAddr.r0 v))
(define-fun R.isNil ((v RV)) Bool (X._reflect.Value_.IsNil.r0 v))
(define-fun R.pointer ((v RV)) (_ BitVec 64) (X._reflect.Value_.Pointer.r0 v))
(define-fun R.kind ((v RV)) (_ BitVec 64) (X._reflect.Value_.Kind.r0 v))
(define-fun R.len ((v RV)) (_ BitVec 64) (X._reflect.Value_.Len.r0 v))
(define-fun R.numField ((v RV)) (_ BitVec 64) (X._reflect.Value_.NumField.r0 v))
(define-fun R.isValid ((v RV)) Bool (X._reflect.Value_.IsValid.r0 v))
(define-fun R.elem ((v RV)) RV (X._reflect.Value_.Elem.r0 v))
(define-fun R.typeOf ((v RV)) RT (X._reflect.Value_.Type.r0 v))
(define-fun R.iface ((v RV)) Iface (X._reflect.Value_.Interface.r0 v))
(define-fun R.index ((v RV) (i (_ BitVec 64))) RV (X._reflect.Value_.Index.r0 v i))
(define-fun R.field ((v RV) (i (_ BitVec 64))) RV (X._reflect.Value_.Field.r0 v i))
(define-fun R.int ((v RV)) (_ BitVec 64) (X._reflect.Value_.Int.r0 v))
(define-fun R.uint ((v RV)) (_ BitVec 64) (X._reflect.Value_.Uint.r0 v))
(define-fun R.float ((v RV)) (_ FloatingPoint 11 53) (X._reflect.Value_.Float.r0 v))
(define-fun R.bool ((v RV)) Bool (X._reflect.Value_.Bool.r0 v))
(define-fun R.string ((v RV)) Str (X._reflect.Value_.String.r0 v))
(define-fun R.tNumField ((t RT)) (_ BitVec 64) (X.reflect.Type.NumField.r0 t))
(define-fun R.tKind ((t RT)) (_ BitVec 64) (X.reflect.Type.Kind.r0 t))
(define-fun R.tName ((t RT)) Str (X.reflect.Type.Name.r0 t))
(define-fun R.tFieldName ((t RT) (i (_ BitVec 64))) Str (X.reflect.Type.Field.r0.Name t i))
; reflect.Kind constants
(define-fun K.Bool () (_ BitVec 64) #x0000000000000001)
(define-fun K.Int () (_ BitVec 64) #x0000000000000002)
(define-fun K.Int8 () (_ BitVec 64) #x0000000000000003)
(define-fun K.Int16 () (_ BitVec 64) #x0000000000000004)
(define-fun K.Int32 () (_ BitVec 64) #x0000000000000005)
(define-fun K.Int64 () (_ BitVec 64) #x0000000000000006)
(define-fun K.Uint () (_ BitVec 64) #x0000000000000007)
(define-fun K.Uint8 () (_ BitVec 64) #x0000000000000008)
(define-fun K.Uint16 () (_ BitVec 64) #x0000000000000009)
(define-fun K.Uint32 () (_ BitVec 64) #x000000000000000a)
(define-fun K.Uint64 () (_ BitVec 64) #x000000000000000b)
(define-fun K.Float32 () (_ BitVec 64) #x000000000000000d)
(define-fun K.Float64 () (_ BitVec 64) #x000000000000000e)
(define-fun K.Array () (_ BitVec 64) #x0000000000000011)
(define-fun K.Interface () (_ BitVec 64) #x0000000000000014)
(define-fun K.Map () (_ BitVec 64) #x0000000000000015)
(define-fun K.Ptr () (_ BitVec 64) #x0000000000000016)
(define-fun K.Slice () (_ BitVec 64) #x0000000000000017)
(define-fun K.String () (_ BitVec 64) #x0000000000000018)
(define-fun K.Struct () (_ BitVec 64) #x0000000000000019)
;@when X._reflect.Value_.Len.r0 R.len
(assert (forall ((v RV)) (! (and (bvsge (X._reflect.Value_.Len.r0 v) #x0000000000000000) (bvsle (X._reflect.Value_.Len.r0 v) #x0000010000000000)) :pattern ((X._reflect.Value_.Len.r0 v)))))
;@end
;@when X._reflect.Value_.NumField.r0 R.numField
(assert (forall ((v RV)) (! (and (bvsge (X._reflect.Value_.NumField.r0 v) #x0000000000000000) (bvsle (X._reflect.Value_.NumField.r0 v) #x0000000000010000)) :pattern ((X._reflect.Value_.NumField.r0 v)))))
;@end
;@when X.reflect.Type.NumField.r0 R.tNumField G.clsDef
(assert (forall ((t RT)) (! (and (bvsge (X.reflect.Type.NumField.r0 t) #x0000000000000000) (bvsle (X.reflect.Type.NumField.r0 t) #x0000000000010000)) :pattern ((X.reflect.Type.NumField.r0 t)))))
;@end
;@when X.reflect.Type.Field.r0.Name R.tFieldName G.fieldNames G.clsDef
(assert (forall ((t RT) (i (_ BitVec 64))) (! (and (bvugt (s.len (X.reflect.Type.Field.r0.Name t i)) #x0000000000000000) (bvule (s.len (X.reflect.Type.Field.r0.Name t i)) #x0000000000010000)) :pattern ((X.reflect.Type.Field.r0.Name t i)))))
;@end
(declare-fun X.reflect.Type.String.r0 (RT) Str)
(define-fun R.tString ((t RT)) Str (X.reflect.Type.String.r0 t))
; value ranges by kind (reflect documentation: Int/Uint return the value widened to 64 bits)
;@when X._reflect.Value_.Int.r0 R.int
(assert (forall ((v RV)) (! (and
  (=> (= (X._reflect.Value_.Kind.r0 v) K.Int8)  (and (bvsle #xffffffffffffff80 (X._reflect.Value_.Int.r0 v)) (bvsle (X._reflect.Value_.Int.r0 v) #x000000000000007f)))
  (=> (= (X._reflect.Value_.Kind.r0 v) K.Int16) (and (bvsle #xffffffffffff8000 (X._reflect.Value_.Int.r0 v)) (bvsle (X._reflect.Value_.Int.r0 v) #x0000000000007fff)))
  (=> (= (X._reflect.Value_.Kind.r0 v) K.Int32) (and (bvsle #xffffffff80000000 (X._reflect.Value_.Int.r0 v)) (bvsle (X._reflect.Value_.Int.r0 v) #x000000007fffffff))))
  :pattern ((X._reflect.Value_.Int.r0 v)))))
;@end
;@when X._reflect.Value_.Uint.r0 R.uint
(assert (forall ((v RV)) (! (and
  (=> (= (X._reflect.Value_.Kind.r0 v) K.Uint8)  (bvule (X._reflect.Value_.Uint.r0 v) #x00000000000000ff))
  (=> (= (X._reflect.Value_.Kind.r0 v) K.Uint16) (bvule (X._reflect.Value_.Uint.r0 v) #x000000000000ffff))
  (=> (= (X._reflect.Value_.Kind.r0 v) K.Uint32) (bvule (X._reflect.Value_.Uint.r0 v) #x00000000ffffffff)))
  :pattern ((X._reflect.Value_.Uint.r0 v)))))
;@end
; height of a type in the by-value containment order (termination measure, C16): element and key
; types are strictly lower, unpacking pointers never raises it.  Well-foundedness is A-META.
(declare-fun T.height (RT) (_ BitVec 64))
(declare-fun X.reflect.Type.Elem.r0 (RT) RT)
(declare-fun X.reflect.Type.Key.r0 (RT) RT)
(define-fun R.tElem ((t RT)) RT (X.reflect.Type.Elem.r0 t))
;@when T.height
(assert (forall ((t RT)) (! (and (bvsge (T.height t) #x0000000000000000) (bvsle (T.height t) #x0000000000100000)) :pattern ((T.height t)))))
; an UNNAMED composite type is strictly higher than its element and key types; a named type may contain itself
; (type Nest []Nest, type Tree map[string]Tree, type P *P), so nothing is assumed about it
(assert (forall ((t RT)) (! (=> (= (X.reflect.Type.Name.r0 t) str.empty) (bvslt (T.height (X.reflect.Type.Elem.r0 t)) (T.height t))) :pattern ((X.reflect.Type.Elem.r0 t)))))
(assert (forall ((t RT)) (! (=> (= (X.reflect.Type.Name.r0 t) str.empty) (bvslt (T.height (X.reflect.Type.Key.r0 t)) (T.height t))) :pattern ((X.reflect.Type.Key.r0 t)))))
(assert (forall ((t RT)) (! (bvsle (T.height (R.unpackPtrType t)) (T.height t)) :pattern ((R.unpackPtrType t)))))
;@end
; the type at the end of a chain of pointer types (the type itself when it is no pointer type): defined along Elem
(declare-fun T.base (RT) RT)
;@when T.base
(assert (forall ((t RT)) (! (=> (not (= (X.reflect.Type.Kind.r0 t) K.Ptr)) (= (T.base t) t)) :pattern ((T.base t)))))
(assert (forall ((t RT)) (! (=> (= (X.reflect.Type.Kind.r0 t) K.Ptr) (= (T.base t) (T.base (X.reflect.Type.Elem.r0 t)))) :pattern ((X.reflect.Type.Elem.r0 t)))))
;@end
