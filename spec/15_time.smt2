; Trusted model of time.Time: a pair (Unix seconds, nanoseconds in [0,1e9)).  (DESIGN §3.2)
; The datatype itself is declared in 00_base.smt2.  Specifications are kept division-free:
; instants are compared as 128-bit nanosecond counts.
(define-fun time.zero () Time (mktime #xfffffff1886e0900 #x0000000000000000)) ; 0001-01-01T00:00:00Z
(define-fun T.valid ((t Time)) Bool
  (and (bvsle #x0000000000000000 (t.nsec t)) (bvslt (t.nsec t) #x000000003b9aca00)
       (bvsle #xfffffff1886e0900 (t.sec t)) (bvsle (t.sec t) #x0000003afff4417f)))   ; years 1..9999
(define-fun T.nsecOK ((t Time)) Bool (and (bvsle #x0000000000000000 (t.nsec t)) (bvslt (t.nsec t) #x000000003b9aca00)))
(define-fun T.iszero ((t Time)) Bool (and (= (t.sec t) #xfffffff1886e0900) (= (t.nsec t) #x0000000000000000)))
; sec*1e9+nsec at 128 bits
(define-fun T.nano128 ((t Time)) (_ BitVec 128)
  (bvadd (bvmul ((_ sign_extend 64) (t.sec t)) #x0000000000000000000000003b9aca00) ((_ sign_extend 64) (t.nsec t))))
(define-fun T.nanoRepresentable ((t Time)) Bool
  (and (bvsle #xffffffffffffffff8000000000000000 (T.nano128 t)) (bvsle (T.nano128 t) #x00000000000000007fffffffffffffff)))
(define-fun T.unixNano ((t Time)) (_ BitVec 64) ((_ extract 63 0) (T.nano128 t)))
; t is a whole number of milliseconds
(define-fun T.wholeMs ((t Time)) Bool
  (exists ((k (_ BitVec 64))) (and (bvsle #x0000000000000000 k) (bvslt k #x00000000000003e8) (= (t.nsec t) (bvmul k #x00000000000f4240)))))
; wire instant w (ns, 128 bit) is less than 1 ms away from t, and equal when t is a whole number of ms (property C10)
(define-fun T.closeN ((w (_ BitVec 128)) (t Time)) Bool
  (and (bvslt (bvsub w (T.nano128 t)) #x000000000000000000000000000f4240)
       (bvsgt (bvsub w (T.nano128 t)) #xfffffffffffffffffffffffffff0bdc0)
       (=> (T.wholeMs t) (= w (T.nano128 t)))))
; ---- date ::= x4a b7..b0 (ms since epoch) | x4b b3 b2 b1 b0 (minutes since epoch)
(define-fun G.isDate ((t (_ BitVec 8))) Bool (or (= t #x4a) (= t #x4b)))
(define-fun G.dateRest ((t (_ BitVec 8))) (_ BitVec 64) (ite (= t #x4a) #x0000000000000008 #x0000000000000004))
(define-fun G.dateAt ((b Bytes) (p (_ BitVec 64))) Bool
  (and (bvult p (blen b)) (G.isDate (at8 b p)) (bvule (bvadd p (bvadd #x0000000000000001 (G.dateRest (at8 b p)))) (blen b))))
; the instant (ns since the epoch, 128 bit) a wire date denotes: published text (compact form = minutes)
(define-fun G.dateNano ((t (_ BitVec 8)) (b Bytes) (q (_ BitVec 64))) (_ BitVec 128)
  (ite (= t #x4a) (bvmul ((_ sign_extend 64) (be64 b q)) #x000000000000000000000000000f4240)
       (bvmul ((_ sign_extend 96) (be32 b q)) #x00000000000000000000000df8475800)))  ; 60e9
; this library's dialect of the compact form: seconds (pinned by the repository's TestDate)
(define-fun L.dateNano ((t (_ BitVec 8)) (b Bytes) (q (_ BitVec 64))) (_ BitVec 128)
  (ite (= t #x4a) (bvmul ((_ sign_extend 64) (be64 b q)) #x000000000000000000000000000f4240)
       (bvmul ((_ sign_extend 96) (be32 b q)) #x0000000000000000000000003b9aca00)))
