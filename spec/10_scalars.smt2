; Grammar G, byte level: int, long, double, date, boolean (Hessian 2.0 serialization text).
; ---- int ::= 'I' b3 b2 b1 b0 | [x80-xbf] | [xc0-xcf] b0 | [xd0-xd7] b1 b0
(define-fun G.isInt1 ((t (_ BitVec 8))) Bool (and (bvuge t #x80) (bvule t #xbf)))
(define-fun G.isInt2 ((t (_ BitVec 8))) Bool (and (bvuge t #xc0) (bvule t #xcf)))
(define-fun G.isInt3 ((t (_ BitVec 8))) Bool (and (bvuge t #xd0) (bvule t #xd7)))
(define-fun G.isInt ((t (_ BitVec 8))) Bool (or (G.isInt1 t) (G.isInt2 t) (G.isInt3 t) (= t #x49)))
(define-fun G.intRest ((t (_ BitVec 8))) (_ BitVec 64)
  (ite (G.isInt1 t) #x0000000000000000 (ite (G.isInt2 t) #x0000000000000001 (ite (G.isInt3 t) #x0000000000000002 #x0000000000000004))))
(define-fun at8 ((b Bytes) (p (_ BitVec 64))) (_ BitVec 8) (select (barr b) p))
; value of the int whose tag is t and whose remaining octets start at q
(define-fun G.decIntT ((t (_ BitVec 8)) (b Bytes) (q (_ BitVec 64))) (_ BitVec 32)
  (ite (G.isInt1 t) (bvsub ((_ zero_extend 24) t) #x00000090)
  (ite (G.isInt2 t) (bvadd (bvshl (bvsub ((_ zero_extend 24) t) #x000000c8) #x00000008) ((_ zero_extend 24) (at8 b q)))
  (ite (G.isInt3 t) (bvadd (bvshl (bvsub ((_ zero_extend 24) t) #x000000d4) #x00000010)
                           (bvadd (bvshl ((_ zero_extend 24) (at8 b q)) #x00000008) ((_ zero_extend 24) (at8 b (bvadd q #x0000000000000001)))))
       (concat (at8 b q) (concat (at8 b (bvadd q #x0000000000000001)) (concat (at8 b (bvadd q #x0000000000000002)) (at8 b (bvadd q #x0000000000000003)))))))))
(define-fun G.decInt ((b Bytes) (p (_ BitVec 64))) (_ BitVec 32) (G.decIntT (at8 b p) b (bvadd p #x0000000000000001)))
(define-fun G.intAt ((b Bytes) (p (_ BitVec 64))) Bool
  (and (bvult p (blen b)) (G.isInt (at8 b p)) (bvule (bvadd p (bvadd #x0000000000000001 (G.intRest (at8 b p)))) (blen b))))
(define-fun G.intLen ((v (_ BitVec 32))) (_ BitVec 64)
  (ite (and (bvsle #xfffffff0 v) (bvsle v #x0000002f)) #x0000000000000001
  (ite (and (bvsle #xfffff800 v) (bvsle v #x000007ff)) #x0000000000000002
  (ite (and (bvsle #xfffc0000 v) (bvsle v #x0003ffff)) #x0000000000000003 #x0000000000000005))))

; ---- long ::= 'L' b7..b0 | [xd8-xef] | [xf0-xff] b0 | [x38-x3f] b1 b0 | x59 b3 b2 b1 b0
(define-fun G.isLong1 ((t (_ BitVec 8))) Bool (and (bvuge t #xd8) (bvule t #xef)))
(define-fun G.isLong2 ((t (_ BitVec 8))) Bool (and (bvuge t #xf0) (bvule t #xff)))
(define-fun G.isLong3 ((t (_ BitVec 8))) Bool (and (bvuge t #x38) (bvule t #x3f)))
(define-fun G.isLong ((t (_ BitVec 8))) Bool (or (G.isLong1 t) (G.isLong2 t) (G.isLong3 t) (= t #x59) (= t #x4c)))
(define-fun G.longRest ((t (_ BitVec 8))) (_ BitVec 64)
  (ite (G.isLong1 t) #x0000000000000000 (ite (G.isLong2 t) #x0000000000000001 (ite (G.isLong3 t) #x0000000000000002
  (ite (= t #x59) #x0000000000000004 #x0000000000000008)))))
(define-fun be32 ((b Bytes) (q (_ BitVec 64))) (_ BitVec 32)
  (concat (at8 b q) (concat (at8 b (bvadd q #x0000000000000001)) (concat (at8 b (bvadd q #x0000000000000002)) (at8 b (bvadd q #x0000000000000003))))))
(define-fun be64 ((b Bytes) (q (_ BitVec 64))) (_ BitVec 64) (concat (be32 b q) (be32 b (bvadd q #x0000000000000004))))
(define-fun be16 ((b Bytes) (q (_ BitVec 64))) (_ BitVec 16) (concat (at8 b q) (at8 b (bvadd q #x0000000000000001))))
(define-fun G.decLongT ((t (_ BitVec 8)) (b Bytes) (q (_ BitVec 64))) (_ BitVec 64)
  (ite (G.isLong1 t) (bvsub ((_ zero_extend 56) t) #x00000000000000e0)
  (ite (G.isLong2 t) (bvadd (bvshl (bvsub ((_ zero_extend 56) t) #x00000000000000f8) #x0000000000000008) ((_ zero_extend 56) (at8 b q)))
  (ite (G.isLong3 t) (bvadd (bvshl (bvsub ((_ zero_extend 56) t) #x000000000000003c) #x0000000000000010)
                           (bvadd (bvshl ((_ zero_extend 56) (at8 b q)) #x0000000000000008) ((_ zero_extend 56) (at8 b (bvadd q #x0000000000000001)))))
  (ite (= t #x59) ((_ sign_extend 32) (be32 b q))
       (be64 b q))))))
(define-fun G.decLong ((b Bytes) (p (_ BitVec 64))) (_ BitVec 64) (G.decLongT (at8 b p) b (bvadd p #x0000000000000001)))
(define-fun G.longAt ((b Bytes) (p (_ BitVec 64))) Bool
  (and (bvult p (blen b)) (G.isLong (at8 b p)) (bvule (bvadd p (bvadd #x0000000000000001 (G.longRest (at8 b p)))) (blen b))))
(define-fun G.longLen ((v (_ BitVec 64))) (_ BitVec 64)
  (ite (and (bvsle #xfffffffffffffff8 v) (bvsle v #x000000000000000f)) #x0000000000000001
  (ite (and (bvsle #xfffffffffffff800 v) (bvsle v #x00000000000007ff)) #x0000000000000002
  (ite (and (bvsle #xfffffffffffc0000 v) (bvsle v #x000000000003ffff)) #x0000000000000003
  (ite (and (bvsle #xffffffff80000000 v) (bvsle v #x000000007fffffff)) #x0000000000000005 #x0000000000000009)))))

; ---- boolean ::= 'T' | 'F'
(define-fun G.isBool ((t (_ BitVec 8))) Bool (or (= t #x54) (= t #x46)))

; ---- double ::= 'D' b7..b0 | x5b | x5c | x5d b0 | x5e b1 b0 | x5f b3 b2 b1 b0
; Note: x5f in the published text is a 32-bit float (this library's reading); the value is cast to double.
(define-fun G.isDouble ((t (_ BitVec 8))) Bool (or (= t #x44) (= t #x5b) (= t #x5c) (= t #x5d) (= t #x5e) (= t #x5f)))
(define-fun G.doubleRest ((t (_ BitVec 8))) (_ BitVec 64)
  (ite (or (= t #x5b) (= t #x5c)) #x0000000000000000 (ite (= t #x5d) #x0000000000000001 (ite (= t #x5e) #x0000000000000002
  (ite (= t #x5f) #x0000000000000004 #x0000000000000008)))))
(define-fun G.decDoubleT ((t (_ BitVec 8)) (b Bytes) (q (_ BitVec 64))) (_ FloatingPoint 11 53)
  (ite (= t #x5b) (fp #b0 #b00000000000 #b0000000000000000000000000000000000000000000000000000)
  (ite (= t #x5c) (fp #b0 #b01111111111 #b0000000000000000000000000000000000000000000000000000)
  (ite (= t #x5d) ((_ to_fp 11 53) RNE (at8 b q))
  (ite (= t #x5e) ((_ to_fp 11 53) RNE (be16 b q))
  (ite (= t #x5f) ((_ to_fp 11 53) RNE ((_ to_fp 8 24) (be32 b q)))
       ((_ to_fp 11 53) (be64 b q))))))))
(define-fun G.decDouble ((b Bytes) (p (_ BitVec 64))) (_ FloatingPoint 11 53) (G.decDoubleT (at8 b p) b (bvadd p #x0000000000000001)))
(define-fun G.doubleAt ((b Bytes) (p (_ BitVec 64))) Bool
  (and (bvult p (blen b)) (G.isDouble (at8 b p)) (bvule (bvadd p (bvadd #x0000000000000001 (G.doubleRest (at8 b p)))) (blen b))))
; numeric sameness of the property: IEEE equality, or both NaN (so -0 ~ +0)
(define-fun G.sameNum ((x (_ FloatingPoint 11 53)) (y (_ FloatingPoint 11 53))) Bool (or (fp.eq x y) (and (fp.isNaN x) (fp.isNaN y))))
(define-fun G.isIntegral ((x (_ FloatingPoint 11 53))) Bool (and (not (fp.isNaN x)) (not (fp.isInfinite x)) (fp.eq (fp.roundToIntegral RTZ x) x)))
(define-fun f64.of.int ((i (_ BitVec 64))) (_ FloatingPoint 11 53) ((_ to_fp 11 53) RNE i))
; shortest exact form (property C08); NaN: unconstrained (0 means "any")
(define-fun G.doubleLen ((x (_ FloatingPoint 11 53))) (_ BitVec 64)
  (ite (fp.isNaN x) #x0000000000000000
  (ite (or (fp.eq x (f64.of.int #x0000000000000000)) (fp.eq x (f64.of.int #x0000000000000001))) #x0000000000000001
  (ite (and (G.isIntegral x) (fp.leq (f64.of.int #xffffffffffffff80) x) (fp.leq x (f64.of.int #x000000000000007f))) #x0000000000000002
  (ite (and (G.isIntegral x) (fp.leq (f64.of.int #xffffffffffff8000) x) (fp.leq x (f64.of.int #x0000000000007fff))) #x0000000000000003
  (ite (fp.eq ((_ to_fp 11 53) RNE ((_ to_fp 8 24) RNE x)) x) #x0000000000000005 #x0000000000000009))))))
; tag classes of strings and byte arrays
(define-fun G.isStr ((t (_ BitVec 8))) Bool (or (bvule t #x1f) (and (bvuge t #x30) (bvule t #x33)) (= t #x52) (= t #x53)))
; binary ::= x41 b1 b0 <data> binary | 'B' b1 b0 <data> | [x20-x2f] <data> | [x34-x37] b0 <data>
(define-fun G.isBinShort ((t (_ BitVec 8))) Bool (and (bvuge t #x20) (bvule t #x2f)))
(define-fun G.isBinMid ((t (_ BitVec 8))) Bool (and (bvuge t #x34) (bvule t #x37)))
(define-fun G.isBinFinal ((t (_ BitVec 8))) Bool (or (G.isBinShort t) (G.isBinMid t) (= t #x42)))
(define-fun G.isBin ((t (_ BitVec 8))) Bool (or (G.isBinFinal t) (= t #x41)))
