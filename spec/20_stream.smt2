; Token streams: the ghost content of a bytes.Buffer and of the destination writer (DESIGN §2.4).
(declare-datatypes ((Tok 0)) ((
  (TByte (tb.b (_ BitVec 8)))                                   ; one literal octet
  (TWin (tw.b Bytes) (tw.lo (_ BitVec 64)) (tw.hi (_ BitVec 64)))   ; octets b[lo:hi] of a byte sequence
  (TRunes (tr.r Runes) (tr.lo (_ BitVec 64)) (tr.hi (_ BitVec 64))) ; UTF-8 of the whole code points r[lo:hi]
  (TStrBytes (ts.s Str))                                        ; the bytes of a Go string
  (TInt (ti.v (_ BitVec 32)))                                   ; one int value (any form chosen by encodeInt)
  (TLong (tl.v (_ BitVec 64)))
  (TDouble (td.v (_ FloatingPoint 11 53)))
  (TBool (tbo.v Bool))
  (TStr (tst.v Str))                                            ; one string value
  (TBin (tbi.v Bytes))                                          ; one binary value
  (TDate (tda.v Time))
  (TVal (tv.v Iface))                                           ; one complete nested value (summary of a WriteData call)
  (TRefVal (trv.v RV))
)))
(declare-datatypes ((Stream 0)) (((emp) (snoc (init Stream) (last Tok)))))
(declare-fun streamOf (Bytes) Stream)
(declare-const str.empty Str)
(assert (= (s.len str.empty) #x0000000000000000))
;@when str.empty
(assert (forall ((s Str)) (! (= (= (s.len s) #x0000000000000000) (= s str.empty)) :pattern ((s.len s)))))
;@end
;@when s.runes
(assert (forall ((s Str)) (! (and (bvule (rlen (s.runes s)) (s.len s)) (=> (not (= (s.len s) #x0000000000000000)) (not (= (rlen (s.runes s)) #x0000000000000000)))) :pattern ((s.runes s)))))
;@end
;@when s.ofbytes
(assert (forall ((b Bytes)) (! (= (s.len (s.ofbytes b)) (blen b)) :pattern ((s.ofbytes b)))))
(assert (forall ((b Bytes) (i (_ BitVec 64))) (! (=> (bvult i (blen b)) (= (s.at (s.ofbytes b) i) (select (barr b) i))) :pattern ((s.at (s.ofbytes b) i)))))
;@end
;@when s.arr
(assert (forall ((s Str) (i (_ BitVec 64))) (! (= (select (s.arr s) i) (s.at s i)) :pattern ((select (s.arr s) i)))))
;@end
;@when s.len
(assert (forall ((s Str)) (! (bvule (s.len s) #x0000010000000000) :pattern ((s.len s)))))
;@end
