package hessian

// Bounded stand-ins of the govc checks (DESIGN §5): concrete sweeps over a
// declared type zoo, graphs, class-definition shapes, alternative encodings and
// hostile inputs.  They run against the real code through `go test -overlay`,
// are labelled "bounded" in the evidence and are never counted as proved.
//
// Selected with GOVC_STANDIN=<property id>; GOVC_SEED seeds the random contents.
// Output protocol (one line each):
//   STANDIN-CASE-FAIL <id> <case name> :: <what>
//   STANDIN-SUMMARY <id> cases=<n> distinct=<m> fail=<k> bound=<text>

import (
	"bufio"
	"bytes"
	"fmt"
	"math"
	"math/rand"
	"os"
	"reflect"
	"runtime"
	"runtime/debug"
	"sort"
	"strconv"
	"strings"
	"testing"
	"time"
)

type siReport struct {
	id       string
	cases    int
	distinct map[string]bool
	fails    []string
	perGroup map[string]int
}

func (r *siReport) ok(name string) {
	r.cases++
	r.distinct[name] = true
}

func (r *siReport) fail(name, what string) {
	r.cases++
	r.distinct[name] = true
	// at most 6 reported failures per case group (the name up to the first '/'): the cases of a recorded finding
	// must not use up the room of the others
	group := name
	if i := strings.Index(name, "/"); i >= 0 {
		group = name[:i]
	}
	if r.perGroup == nil {
		r.perGroup = map[string]int{}
	}
	r.perGroup[group]++
	if r.perGroup[group] <= 6 && len(r.fails) < 400 {
		r.fails = append(r.fails, name+" :: "+what)
	}
}

func (r *siReport) done(bound string) {
	for _, f := range r.fails {
		fmt.Println("STANDIN-CASE-FAIL", r.id, f)
	}
	fmt.Printf("STANDIN-SUMMARY %s cases=%d distinct=%d fail=%d bound=%s\n", r.id, r.cases, len(r.distinct), len(r.fails), bound)
}

// siDeep: the thorough tier asks for the exhaustive ranges of the properties' quantifiers
func siDeep() bool { return os.Getenv("GOVC_STANDIN_DEEP") != "" }

func siScale(quick, deep int) int {
	if siDeep() {
		return deep
	}
	return quick
}

func siSeed() int64 {
	if v, err := strconv.ParseInt(os.Getenv("GOVC_SEED"), 10, 64); err == nil {
		return v
	}
	return 1
}

// ---------------------------------------------------------------- the zoo

type ZInner struct {
	A int32
	S string
}
type ZScalars struct {
	B   bool
	I8  int8
	I16 int16
	I32 int32
	I   int
	I64 int64
	U8  uint8
	U16 uint16
	U32 uint32
	U   uint
	U64 uint64
	F32 float32
	F64 float64
	S   string
	Bin []byte
	T   time.Time
}
type ZLists struct {
	Ints    []int32
	Longs   []int64
	Strs    []string
	Floats  []float64
	Structs []ZInner
	Ptrs    []*ZInner
	Nested  [][]int32
	Times   []time.Time
}
type ZMaps struct {
	SS map[string]string
	SP map[string]*ZInner
	SI map[string]int
	IS map[int]string
	SU map[string]uint32
	SV map[string]ZInner
	SF map[string]float32
}

// containers inside containers, to depth three ("slices and maps of these nested to any depth")
type ZNested struct {
	MM  map[string]map[string]int32
	LM  []map[string]int32
	ML  map[string][]int32
	MLS map[string][]ZInner
	LMP []map[string]*ZInner
	MML map[string]map[int32][]string
	LLM [][]map[string]int64
	MT  map[string]time.Time
}

// every element kind in lists and as map keys and values; struct-typed fields by value and by pointer
type ZKinds struct {
	Bools []bool
	I8s   []int8
	I16s  []int16
	Is    []int
	U16s  []uint16
	U32s  []uint32
	U64s  []uint64
	Us    []uint
	F32s  []float32
	Bins  [][]byte
	MI8   map[int8]int16
	MU    map[uint16]uint64
	MB    map[bool]string
	MF    map[float64]float32
	MBin  map[string][]byte
	MI64  map[int64]int64
}
type ZFields struct {
	V   ZInner
	P   *ZInner
	NP  *ZInner
	T   *time.Time
	NT  *time.Time
	LV  [][]ZInner
	MLV map[string][]ZInner
}
type ZPtrLists struct {
	LP  [][]*ZInner
	MLP map[string][]*ZInner
}
type ZAnon struct {
	Name  string
	Inner struct{ A int32 }
}
type ZEmbedded struct {
	ZInner
	X int32
}
type ZNode struct {
	V    int32
	Next *ZNode
	Kids []*ZNode
}
type ZNamed struct {
	N string
}

func (ZNamed) HessianCodecName() string { return "com.example.Named" }

type ZWithNamed struct {
	A ZNamed
	L []ZNamed
}

type ZCollide struct {
	Vals []ZInner
	Ptrs []*ZInner
}
type ZOnlyPtrs struct {
	Ptrs []*ZInner
}

func withNils(in []*ZInner) []*ZInner {
	out := append([]*ZInner{}, in...)
	for i := range out {
		if i%3 == 1 {
			out[i] = nil
		}
	}
	return out
}

func siRandString(rng *rand.Rand, n int) string {
	alphabet := []rune("abcXYZ09 _-éßж中文😀")
	rs := make([]rune, n)
	for i := range rs {
		rs[i] = alphabet[rng.Intn(len(alphabet))]
	}
	return string(rs)
}

var siLengths = []int{0, 1, 2, 7, 8, 9, 15, 16, 17, 31, 32, 255, 256, 257, 263, 264, 600, 1023, 1024, 1025, 2048, 2049, 5000}

func siMillis(rng *rand.Rand) time.Time {
	// whole milliseconds across years 1..9999
	ms := rng.Int63n(253402300799000+62135596800000) - 62135596800000
	return time.Unix(ms/1000, (ms%1000)*1e6).UTC()
}

func siEqual(a, b interface{}) bool {
	return siEq(reflect.ValueOf(a), reflect.ValueOf(b), map[[2]uintptr]bool{})
}

// siEq: equality up to the documented normalisations (nil == empty containers, time as instant at ms
// resolution, -0 == 0, NaN == NaN).
func siEq(a, b reflect.Value, seen map[[2]uintptr]bool) bool {
	if !a.IsValid() || !b.IsValid() {
		return a.IsValid() == b.IsValid()
	}
	for a.Kind() == reflect.Interface && !a.IsNil() {
		a = a.Elem()
	}
	for b.Kind() == reflect.Interface && !b.IsNil() {
		b = b.Elem()
	}
	if a.Type() != b.Type() {
		return false
	}
	if t, ok := a.Interface().(time.Time); ok {
		u := b.Interface().(time.Time)
		return t.Unix() == u.Unix() && t.Nanosecond()/1e6 == u.Nanosecond()/1e6
	}
	switch a.Kind() {
	case reflect.Ptr:
		if a.IsNil() || b.IsNil() {
			return a.IsNil() == b.IsNil()
		}
		k := [2]uintptr{a.Pointer(), b.Pointer()}
		if seen[k] {
			return true
		}
		seen[k] = true
		return siEq(a.Elem(), b.Elem(), seen)
	case reflect.Struct:
		for i := 0; i < a.NumField(); i++ {
			if !siEq(a.Field(i), b.Field(i), seen) {
				return false
			}
		}
		return true
	case reflect.Slice, reflect.Array:
		if a.Len() != b.Len() {
			return false
		}
		for i := 0; i < a.Len(); i++ {
			if !siEq(a.Index(i), b.Index(i), seen) {
				return false
			}
		}
		return true
	case reflect.Map:
		if a.Len() != b.Len() {
			return false
		}
		for _, k := range a.MapKeys() {
			bv := b.MapIndex(k)
			if !bv.IsValid() || !siEq(a.MapIndex(k), bv, seen) {
				return false
			}
		}
		return true
	case reflect.Float32, reflect.Float64:
		x, y := a.Float(), b.Float()
		return x == y || (math.IsNaN(x) && math.IsNaN(y))
	case reflect.Interface:
		return a.IsNil() == b.IsNil()
	}
	return reflect.DeepEqual(a.Interface(), b.Interface())
}

// siEntriesEqual: got (a map[interface{}]interface{} or nil) holds the entries of want when its keys and values are
// brought to want's types with the library's own assignment (SetValue)
func siEntriesEqual(want, got interface{}) (eq bool) {
	defer func() {
		if recover() != nil {
			eq = false
		}
	}()
	wv := reflect.ValueOf(want)
	if got == nil {
		return wv.Len() == 0
	}
	nv := reflect.New(wv.Type()).Elem()
	SetValue(nv, reflect.ValueOf(got))
	return siEqual(want, nv.Interface())
}

type ZTimes struct {
	T []time.Time
	P []*ZInner
}

// siRoundTripUntyped: as siRoundTrip, with the list type names removed from the name map (lists go out untyped)
func siRoundTripUntyped(v interface{}) (out interface{}, err error) {
	defer func() {
		if r := recover(); r != nil {
			err = fmt.Errorf("PANIC: %v", r)
		}
	}()
	tm, nm := ExtractTypeNameMap(v)
	nm2 := map[string]string{}
	for k, w := range nm {
		if !strings.HasPrefix(k, "[") && !strings.HasPrefix(w, "[") {
			nm2[k] = w
		}
	}
	bs, err := ToBytes(v, nm2)
	if err != nil {
		return nil, fmt.Errorf("encode: %v", err)
	}
	out, err = ToObject(bs, tm)
	if err != nil {
		return nil, fmt.Errorf("decode: %v", err)
	}
	return out, nil
}

func siRoundTrip(v interface{}) (out interface{}, err error) {
	defer func() {
		if r := recover(); r != nil {
			err = fmt.Errorf("PANIC: %v", r)
		}
	}()
	tm, nm := ExtractTypeNameMap(v)
	bs, err := ToBytes(v, nm)
	if err != nil {
		return nil, fmt.Errorf("encode: %v", err)
	}
	out, err = ToObject(bs, tm)
	if err != nil {
		return nil, fmt.Errorf("decode: %v", err)
	}
	return out, nil
}

func siZoo(rng *rand.Rand, n int) map[string]interface{} {
	ints := make([]int32, n)
	longs := make([]int64, n)
	strs := make([]string, n)
	floats := make([]float64, n)
	structs := make([]ZInner, n)
	ptrs := make([]*ZInner, n)
	times := make([]time.Time, n)
	nested := make([][]int32, n%20)
	for i := 0; i < n; i++ {
		ints[i] = int32(rng.Uint32())
		longs[i] = int64(rng.Uint64())
		strs[i] = siRandString(rng, rng.Intn(5))
		floats[i] = []float64{0, 1, -1, 2, 127, -128, 128, 32767, -32768, 32768, 0.5, 12.25, 1e300, math.Inf(1), float64(float32(1.1)), 1.1}[rng.Intn(16)]
		structs[i] = ZInner{int32(i), siRandString(rng, 2)}
		ptrs[i] = &ZInner{int32(-i), "p"}
		times[i] = siMillis(rng)
	}
	for i := range nested {
		nested[i] = []int32{int32(i), 1, 2}
		if i%3 == 1 {
			nested[i] = []int32{} // an empty row
		}
	}
	ss := map[string]string{}
	sp := map[string]*ZInner{}
	si, is, su, sv, sf := map[string]int{}, map[int]string{}, map[string]uint32{}, map[string]ZInner{}, map[string]float32{}
	for i := 0; i < n && i < 40; i++ {
		ss[siRandString(rng, 3)+strconv.Itoa(i)] = siRandString(rng, 2)
		sp["k"+strconv.Itoa(i)] = &ZInner{int32(i), "v"}
		si["i"+strconv.Itoa(i)] = i * 100003
		is[i*7-3] = siRandString(rng, 2)
		su["u"+strconv.Itoa(i)] = math.MaxUint32 - uint32(i)
		sv["v"+strconv.Itoa(i)] = ZInner{int32(i), "s"}
		sf["f"+strconv.Itoa(i)] = float32(i) + 0.25
	}
	if n > 2 {
		// a nil pointer is a value, the empty string is a key and a value
		sp["nil"] = nil
		ss[""] = "empty key"
		ss["empty value"] = ""
	}
	nz := &ZNested{MM: map[string]map[string]int32{}, ML: map[string][]int32{}, MLS: map[string][]ZInner{}, MML: map[string]map[int32][]string{}, MT: map[string]time.Time{}}
	for i := 0; i < n && i < 12; i++ {
		k := "k" + strconv.Itoa(i)
		nz.MM[k] = map[string]int32{"a": int32(i), siRandString(rng, 2): -int32(i)}
		nz.LM = append(nz.LM, map[string]int32{k: int32(i)})
		nz.ML[k] = []int32{int32(i), 2, 3}
		nz.MLS[k] = []ZInner{{int32(i), "x"}}
		nz.LMP = append(nz.LMP, map[string]*ZInner{k: {int32(i), "p"}, "nil": nil})
		nz.MML[k] = map[int32][]string{int32(i): {"a", ""}, -1: nil}
		nz.LLM = append(nz.LLM, []map[string]int64{{k: int64(i) << 33}, {}})
		nz.MT[k] = siMillis(rng)
	}
	if n > 3 {
		nz.MM["empty"] = map[string]int32{}
		nz.MM["nil"] = nil
		nz.ML["nil"] = nil
	}
	kz := &ZKinds{MI8: map[int8]int16{}, MU: map[uint16]uint64{}, MB: map[bool]string{}, MF: map[float64]float32{}, MBin: map[string][]byte{}, MI64: map[int64]int64{}}
	fz := &ZFields{V: ZInner{int32(n), "v"}, P: &ZInner{int32(-n), "p"}, MLV: map[string][]ZInner{}}
	pz := &ZPtrLists{MLP: map[string][]*ZInner{}}
	if n%2 == 1 {
		tt := siMillis(rng)
		fz.T = &tt
	}
	for i := 0; i < n && i < 20; i++ {
		kz.Bools = append(kz.Bools, i%3 == 0)
		kz.I8s = append(kz.I8s, int8(i*13))
		kz.I16s = append(kz.I16s, int16(i*4099))
		kz.Is = append(kz.Is, i*100000007%math.MaxInt32-i)
		kz.U16s = append(kz.U16s, uint16(65535-i))
		kz.U32s = append(kz.U32s, math.MaxUint32-uint32(i))
		kz.U64s = append(kz.U64s, uint64(1)<<62+uint64(i))
		kz.Us = append(kz.Us, uint(i)<<33)
		kz.F32s = append(kz.F32s, float32(i)/3)
		kz.Bins = append(kz.Bins, bytes.Repeat([]byte{byte(i)}, i%5))
		kz.MI8[int8(i-10)] = int16(-i)
		kz.MU[uint16(i)] = uint64(i) << 50
		kz.MB[i%2 == 0] = strconv.Itoa(i)
		kz.MF[float64(i)+0.5] = float32(i) + 0.25
		kz.MBin["b"+strconv.Itoa(i)] = []byte{byte(i), 0}
		kz.MI64[int64(i)<<40] = -int64(i) << 35
		fz.LV = append(fz.LV, []ZInner{{int32(i), "a"}, {int32(i + 1), ""}})
		fz.MLV["k"+strconv.Itoa(i)] = []ZInner{{int32(i), "m"}}
		pz.LP = append(pz.LP, []*ZInner{{int32(i), "a"}, nil})
		pz.MLP["k"+strconv.Itoa(i)] = []*ZInner{nil, {int32(i), "m"}}
	}
	return map[string]interface{}{
		"element-kinds":         kz,
		"struct-fields":         fz,
		"pointer-lists":         pz,
		"[]bool":                kz.Bools,
		"[]uint32":              kz.U32s,
		"[]float32":             kz.F32s,
		"[][]byte":              kz.Bins,
		"nested-containers":     nz,
		"[]map":                 nz.LM,
		"[][]map":               nz.LLM,
		"toplevel-map/of-ints":  si,
		"toplevel-map/of-maps":  nz.MM,
		"toplevel-map/of-lists": nz.ML,
		"scalars": &ZScalars{B: n%2 == 0, I8: int8(n), I16: int16(-n), I32: math.MinInt32 + int32(n), I: n * 1000, I64: math.MaxInt64 - int64(n),
			U8: uint8(n), U16: uint16(n * 7), U32: math.MaxUint32 - uint32(n), U: uint(n) << 20, U64: uint64(n) << 40, F32: float32(n) + 0.5, F64: float64(n) * 1.1,
			S: siRandString(rng, n), Bin: bytes.Repeat([]byte{byte(n)}, n), T: siMillis(rng)},
		"lists":                  &ZLists{Ints: ints, Longs: longs, Strs: strs, Floats: floats, Structs: structs, Ptrs: ptrs, Nested: nested, Times: times},
		"maps":                   &ZMaps{SS: ss, SP: sp, SI: si, IS: is, SU: su, SV: sv, SF: sf},
		"embedded":               &ZEmbedded{ZInner{int32(n), "e"}, 7},
		"anonymous-struct-field": &ZAnon{Name: "x", Inner: struct{ A int32 }{int32(n)}},
		"named":                  &ZWithNamed{A: ZNamed{"a"}, L: []ZNamed{{"x"}, {"y"}}},
		"[]int32":                ints,
		"[]string":               strs,
		"[]struct":               structs,
		"[]*struct":              ptrs,
		// []T and []*T of one T in the same message share the wire type name: nil elements are lost (known finding)
		"collision-nil-in-ptr-slice": &ZCollide{Vals: structs, Ptrs: withNils(ptrs)},
		"ptr-slice-with-nils":        &ZOnlyPtrs{Ptrs: withNils(ptrs)},
	}
}

// ---------------------------------------------------------------- C01 / C07 / C08 / C09 / C10: round trip over the zoo

func siC01(r *siReport) {
	rng := rand.New(rand.NewSource(siSeed()))
	lengths := siLengths
	if siDeep() {
		lengths = nil
		for n := 0; n <= 600; n++ {
			lengths = append(lengths, n)
		}
		lengths = append(lengths, 1023, 1024, 1025, 2048, 2049, 5000)
	}
	for _, n := range lengths {
		zoo := siZoo(rng, n)
		var names []string
		for k := range zoo {
			names = append(names, k)
		}
		sort.Strings(names)
		for _, name := range names {
			if r.id != "C01" && strings.HasPrefix(name, "collision") {
				continue
			}
			v := zoo[name]
			cn := fmt.Sprintf("%s/len=%d", name, n)
			out, err := siRoundTrip(v)
			if err != nil {
				r.fail(cn, err.Error())
				continue
			}
			if strings.HasPrefix(name, "toplevel-map/") {
				// the dynamic type of a top-level map is lost (known finding); its entries must still be the ones sent
				en := "toplevel-map-entries" + cn[len("toplevel-map"):]
				if siEntriesEqual(v, out) {
					r.ok(en)
				} else {
					r.fail(en, fmt.Sprintf("entries differ: %v", out))
				}
			}
			if r.id != "C01" && strings.HasPrefix(name, "toplevel-map/") {
				continue // the lost dynamic type is C01's finding; the scalars inside were compared just above
			}
			// the same value with its lists sent untyped (no list names in the name map): still the same value
			switch name {
			case "lists", "nested-containers", "element-kinds", "struct-fields", "pointer-lists":
				un := "untyped-lists/" + cn
				if uout, uerr := siRoundTripUntyped(v); uerr != nil {
					r.fail(un, uerr.Error())
				} else if !siEqual(v, uout) {
					r.fail(un, fmt.Sprintf("decoded value differs (type %T)", uout))
				} else {
					r.ok(un)
				}
			}
			if !siEqual(v, out) {
				r.fail(cn, fmt.Sprintf("decoded value differs (type %T)", out))
				continue
			}
			r.ok(cn)
		}
	}
	// zero timestamps between others in a list field that arrives untyped
	{
		t1, t2 := time.Unix(1700000000, 0).UTC(), time.Unix(1700000001, 5e6).UTC()
		v := &ZTimes{T: []time.Time{{}, t1, {}, t2, {}, {}}, P: []*ZInner{nil, {1, "a"}, nil, {2, "b"}, nil}}
		for _, untyped := range []bool{false, true} {
			cn := fmt.Sprintf("times-with-zero/untyped=%v", untyped)
			var out interface{}
			var err error
			if untyped {
				out, err = siRoundTripUntyped(v)
			} else {
				out, err = siRoundTrip(v)
			}
			if err != nil {
				r.fail(cn, err.Error())
			} else if !siEqual(v, out) {
				r.fail(cn, fmt.Sprintf("decoded value differs: %+v", out))
			} else {
				r.ok(cn)
			}
		}
	}
	// top-level scalars in canonical wire type
	for _, x := range []interface{}{int32(5), int32(-17), int32(300000), int64(1) << 40, int64(-9), 2.0, 1.5, -0.0, "", "héllo", true, false, []byte{}, []byte{1, 2, 3}} {
		cn := fmt.Sprintf("scalar/%T/%v", x, x)
		out, err := siRoundTrip(x)
		if err != nil {
			r.fail(cn, err.Error())
			continue
		}
		if b, ok := x.([]byte); ok && len(b) == 0 {
			if out != nil && len(out.([]byte)) != 0 {
				r.fail(cn, "empty binary")
			} else {
				r.ok(cn)
			}
			continue
		}
		if !siEqual(x, out) {
			r.fail(cn, fmt.Sprintf("got %T %v", out, out))
			continue
		}
		r.ok(cn)
	}
	if siDeep() {
		r.done("zoo of 24 shapes x every length 0..600 and 1023..5000 across the list growth steps x seeded contents; 14 top-level scalars")
		return
	}
	r.done("zoo of 24 shapes (scalars, lists, maps, eight nested container shapes, every element kind, struct fields by value and pointer, top-level lists and maps) x lengths {0..600 incl. every length form and the 8-bit wrap points, and 1023..5000 across the list growth steps} x seeded contents; 14 top-level scalars")
}

// ---------------------------------------------------------------- C09: strings and binaries around chunk boundaries

func siC09(r *siReport) {
	wide := []string{"a", "é", "中", "😀"}
	lens := []int{0, 1, 31, 32, 1023, 1024, 2047, 2048, 2049, 4095, 4096, 4097, 6144 + 40}
	for _, n := range lens {
		for wi, w := range wide {
			for _, off := range []int{0, n / 2, n - 1} {
				if n == 0 && (wi > 0 || off != 0) {
					continue
				}
				rs := make([]rune, n)
				for i := range rs {
					rs[i] = 'x'
				}
				if n > 0 && off >= 0 && off < n {
					rs[off] = []rune(w)[0]
				}
				s := string(rs)
				cn := fmt.Sprintf("str/len=%d/wide=%d/off=%d", n, wi, off)
				for _, v := range []interface{}{s, []string{"a", s, "b"}, &ZMaps{SS: map[string]string{"k": s, s: "v"}}, &ZInner{1, s}} {
					out, err := siRoundTrip(v)
					if err != nil {
						r.fail(cn, err.Error())
					} else if !siEqual(v, out) {
						r.fail(cn, fmt.Sprintf("content differs at %T", v))
					} else {
						r.ok(cn)
					}
				}
			}
		}
	}
	for _, n := range []int{0, 1, 15, 16, 4095, 4096, 4097, 8192, 12288 + 40} {
		b := make([]byte, n)
		for i := range b {
			b[i] = byte(i * 7)
		}
		cn := fmt.Sprintf("bin/len=%d", n)
		for _, v := range []interface{}{b, &ZScalars{Bin: b}, []interface{}{b, int32(1)}} {
			out, err := siRoundTrip(v)
			if err != nil {
				r.fail(cn, err.Error())
			} else if n > 0 && !siEqual(v, out) {
				r.fail(cn, fmt.Sprintf("content differs at %T", v))
			} else {
				r.ok(cn)
			}
		}
	}
	if siDeep() {
		// every length 0..3*chunk+40, an ASCII and a 4-byte code point at the last position and at the first chunk boundary
		for n := 0; n <= 3*2048+40; n++ {
			for wi, w := range []rune{'x', '😀'} {
				for _, off := range []int{n - 1, 2047} {
					if off < 0 || off >= n {
						continue
					}
					rs := make([]rune, n)
					for i := range rs {
						rs[i] = 'y'
					}
					rs[off] = w
					s := string(rs)
					cn := fmt.Sprintf("deepstr/len=%d/wide=%d/off=%d", n, wi, off)
					for _, v := range []interface{}{s, &ZInner{1, s}} {
						out, err := siRoundTrip(v)
						if err != nil {
							r.fail(cn, err.Error())
						} else if !siEqual(v, out) {
							r.fail(cn, fmt.Sprintf("content differs at %T", v))
						} else {
							r.ok(cn)
						}
					}
				}
			}
		}
		for n := 1; n <= 3*4096+40; n++ {
			b := make([]byte, n)
			for i := range b {
				b[i] = byte(i*7 + n)
			}
			cn := fmt.Sprintf("deepbin/len=%d", n)
			out, err := siRoundTrip(b)
			if err != nil {
				r.fail(cn, err.Error())
			} else if !siEqual(b, out) {
				r.fail(cn, "content differs")
			} else {
				r.ok(cn)
			}
		}
		r.done("string lengths around 32/1024/2048/4096/6144 x {1,2,3,4}-byte code point at 3 offsets x 4 positions; binary lengths around 16/4096/8192/12288 x 3 positions; every string length 0..6184 x {ASCII, 4-byte code point} x {last position, first chunk boundary} x {top level, struct field}; every binary length 1..12328")
		return
	}
	r.done("string lengths around 32/1024/2048/4096/6144 x {1,2,3,4}-byte code point at 3 offsets x 4 positions; binary lengths around 16/4096/8192/12288 x 3 positions")
}

// ---------------------------------------------------------------- C04: object graphs

type ZG struct {
	ID   int32
	A, B *ZG
	L    []*ZG
	F    string
}

func siGraphSignature(root *ZG, limit int) string {
	// canonical description of the reachable graph: BFS numbering + edges
	ids := map[*ZG]int{}
	var order []*ZG
	var visit func(n *ZG)
	visit = func(n *ZG) {
		if n == nil {
			return
		}
		if _, ok := ids[n]; ok {
			return
		}
		ids[n] = len(ids)
		order = append(order, n)
		visit(n.A)
		visit(n.B)
		for _, k := range n.L {
			visit(k)
		}
	}
	visit(root)
	var b strings.Builder
	num := func(n *ZG) string {
		if n == nil {
			return "-"
		}
		return strconv.Itoa(ids[n])
	}
	for _, n := range order {
		fmt.Fprintf(&b, "%d(%d):%s,%s,[", ids[n], n.ID, num(n.A), num(n.B))
		for _, k := range n.L {
			b.WriteString(num(k) + " ")
		}
		b.WriteString("];")
	}
	return b.String()
}

func siC04(r *siReport) {
	// exhaustive: 3 nodes, slots A and B of each node in {nil, n0, n1, n2}: 4^6 graphs; plus list-of-pointer variants
	n := 3
	total := 1
	for i := 0; i < 2*n; i++ {
		total *= n + 1
	}
	for code := 0; code < total; code++ {
		nodes := make([]*ZG, n)
		for i := range nodes {
			nodes[i] = &ZG{ID: int32(i + 1), F: "f"}
		}
		c := code
		pick := func() *ZG {
			k := c % (n + 1)
			c /= n + 1
			if k == n {
				return nil
			}
			return nodes[k]
		}
		for i := range nodes {
			nodes[i].A = pick()
			nodes[i].B = pick()
		}
		if code%7 == 0 {
			nodes[0].L = []*ZG{nodes[1], nodes[1], nodes[2], nil, nodes[0]}
		}
		cn := fmt.Sprintf("graph3/%d", code)
		out, err := siRoundTrip(nodes[0])
		if err != nil {
			r.fail(cn, err.Error())
			continue
		}
		got, ok := out.(*ZG)
		if !ok {
			r.fail(cn, fmt.Sprintf("type %T", out))
			continue
		}
		if siGraphSignature(nodes[0], 10) != siGraphSignature(got, 10) {
			r.fail(cn, "sharing structure differs: want "+siGraphSignature(nodes[0], 10)+" got "+siGraphSignature(got, 10))
			continue
		}
		r.ok(cn)
	}
	siC04Slices(r)
	siC04Kinds(r)
	r.done("every assignment of the 6 pointer slots of 3 nodes over {nil,n0,n1,n2} (4096 graphs), every 7th with a slice of pointers incl. duplicates, nil and a back edge; every assignment of 6 slice slots of 2 nodes over {nil, empty, two shared lists} (4096 graphs: the same slice in sibling fields, a list that contains its owner, empty slices of two element types before a shared pointer); 3 shapes with two containers of different kinds at one address before a shared pointer, 3 with sub-slices of one array, each with typed and with untyped lists")
}

// ZK*: two containers of different kinds at one address (a slice and a pointer to its first element, a struct
// and a pointer to its first field) in front of a shared pointer
type ZK1 struct {
	P    *ZInner
	S    []ZInner
	Q, R *ZInner
}
type ZK2 struct {
	S    []ZInner
	P    *ZInner
	Q, R *ZInner
}
type ZKIn struct {
	First ZInner
	N     int32
}
type ZSub struct{ A, B, C []int32 }
type ZK3 struct {
	W    *ZKIn
	F    *ZInner
	Q, R *ZInner
}

type ZRows struct{ Rows [][]*ZInner }

func siC04Kinds(r *siReport) {
	check := func(cn string, v interface{}, q, rr func(interface{}) *ZInner) {
		out, err := siRoundTrip(v)
		if err != nil {
			r.fail(cn, err.Error())
			return
		}
		if reflect.TypeOf(out) != reflect.TypeOf(v) {
			r.fail(cn, fmt.Sprintf("type %T", out))
			return
		}
		a, b := q(out), rr(out)
		if a == nil || b == nil || a != b || a.A != 9 {
			r.fail(cn, fmt.Sprintf("the shared pointer behind the two containers at one address came back as %v / %v", a, b))
			return
		}
		r.ok(cn)
	}
	s := []ZInner{{1, "a"}, {2, "b"}}
	x := &ZInner{9, "x"}
	check("kinds/ptr-to-first-element-then-slice", &ZK1{P: &s[0], S: s, Q: x, R: x}, func(o interface{}) *ZInner { return o.(*ZK1).Q }, func(o interface{}) *ZInner { return o.(*ZK1).R })
	check("kinds/slice-then-ptr-to-first-element", &ZK2{S: s, P: &s[0], Q: x, R: x}, func(o interface{}) *ZInner { return o.(*ZK2).Q }, func(o interface{}) *ZInner { return o.(*ZK2).R })
	// a row that occurs twice in a list of lists (typed and, without list names, untyped): both occurrences come
	// back with the row's elements, as one list
	{
		row := []*ZInner{{1, "a"}, {2, "b"}}
		other := []*ZInner{{3, "c"}}
		for _, untyped := range []bool{false, true} {
			cn := fmt.Sprintf("kinds/shared-row-in-list-of-lists/untyped=%v", untyped)
			v := &ZRows{Rows: [][]*ZInner{row, other, row}}
			var out interface{}
			var err error
			if untyped {
				out, err = siRoundTripUntyped(v)
			} else {
				out, err = siRoundTrip(v)
			}
			if err != nil {
				r.fail(cn, err.Error())
				continue
			}
			o, ok := out.(*ZRows)
			if !ok || len(o.Rows) != 3 || len(o.Rows[0]) != 2 || len(o.Rows[2]) != 2 || len(o.Rows[1]) != 1 || o.Rows[0][0] != o.Rows[2][0] || o.Rows[0][1] != o.Rows[2][1] || o.Rows[2][1].A != 2 {
				r.fail(cn, fmt.Sprintf("rows came back as %v", out))
				continue
			}
			r.ok(cn)
		}
		top := [][]*ZInner{row, other, row}
		if out, err := siRoundTrip(top); err != nil {
			r.fail("kinds/shared-row-top-level", err.Error())
		} else if o, ok := out.([][]*ZInner); !ok || len(o) != 3 || len(o[2]) != 2 || o[0][0] != o[2][0] {
			r.fail("kinds/shared-row-top-level", fmt.Sprintf("rows came back as %v", out))
		} else {
			r.ok("kinds/shared-row-top-level")
		}
	}
	// a cycle whose outermost container is a list (nobody assigns that list to a field)
	{
		n := &ZS{ID: 1}
		kids := []*ZS{n, {ID: 2}}
		n.L = kids
		out, err := siRoundTrip(kids)
		g, ok := out.([]*ZS)
		if err != nil {
			r.fail("kinds/top-level-list-cycle", err.Error())
		} else if !ok || len(g) != 2 || len(g[0].L) != 2 || g[0].L[0] != g[0] {
			r.fail("kinds/top-level-list-cycle", fmt.Sprintf("the element's reference to the list was lost: %+v", out))
		} else {
			r.ok("kinds/top-level-list-cycle")
		}
	}
	// a list longer than the decoder's first allocation that contains its owner: the cycle survives the list's growth
	for _, n := range []int{8, 1024, 1025, 3000} {
		root := &ZS{ID: 1}
		kids := make([]*ZS, n)
		for i := range kids {
			kids[i] = &ZS{ID: int32(i + 2)}
		}
		kids[3].L = kids
		root.L = kids
		cn := fmt.Sprintf("kinds/big-list-containing-itself/n=%d", n)
		out, err := siRoundTrip(root)
		if err != nil {
			r.fail(cn, err.Error())
			continue
		}
		g, ok := out.(*ZS)
		if !ok || len(g.L) != n || len(g.L[3].L) != n || &g.L[3].L[0] != &g.L[0] || g.L[3].L[n-1] != g.L[n-1] {
			r.fail(cn, "the list inside its own element is not the list itself")
			continue
		}
		r.ok(cn)
	}
	// slices that start at one address with different lengths are different lists
	{
		base := []int32{1, 2, 3}
		for ci, v := range []*ZSub{{A: base[:2], B: base, C: base[:2]}, {A: base[:0], B: base, C: base}, {A: base, B: base[:1], C: base[:2]}} {
			cn := fmt.Sprintf("kinds/sub-slices-%d", ci)
			out, err := siRoundTrip(v)
			if err != nil {
				r.fail(cn, err.Error())
				continue
			}
			g, ok := out.(*ZSub)
			if !ok || len(g.A) != len(v.A) || len(g.B) != len(v.B) || len(g.C) != len(v.C) || !siEqual(v, out) {
				r.fail(cn, fmt.Sprintf("got %+v want %+v", out, v))
				continue
			}
			r.ok(cn)
		}
	}
	w := &ZKIn{First: ZInner{3, "c"}, N: 4}
	check("kinds/struct-then-ptr-to-first-field", &ZK3{W: w, F: &w.First, Q: x, R: x}, func(o interface{}) *ZInner { return o.(*ZK3).Q }, func(o interface{}) *ZInner { return o.(*ZK3).R })
}

// ZS: the same slice in several fields (C04: "the same slice in two sibling fields")
type ZS struct {
	ID   int32
	L, M []*ZS
	I, J []int32
}

func siC04Slices(r *siReport) {
	for code := 0; code < 4096; code++ {
		n0, n1 := &ZS{ID: 1}, &ZS{ID: 2}
		lists := [][]*ZS{nil, {n0, n1}, {n1}, {}}
		ints := [][]int32{nil, {1, 2, 3}, {4}, {}}
		c := code
		pick := func() int { k := c % 4; c /= 4; return k }
		sel := []int{pick(), pick(), pick(), pick(), pick(), pick()}
		n0.L, n0.M, n0.I, n0.J, n1.L, n1.M = lists[sel[0]], lists[sel[1]], ints[sel[2]], ints[sel[3]], lists[sel[4]], lists[sel[5]]
		for _, untyped := range []bool{false, true} {
			cn := fmt.Sprintf("slices/%d/untyped=%v", code, untyped)
			var out interface{}
			var err error
			func() {
				defer func() {
					if rec := recover(); rec != nil {
						err = fmt.Errorf("PANIC: %v", rec)
					}
				}()
				tm, nm := ExtractTypeNameMap(n0)
				if untyped {
					// without wire names for the list types the encoder writes untyped lists
					nm2 := map[string]string{}
					for k, v := range nm {
						if !strings.HasPrefix(k, "[") && !strings.HasPrefix(v, "[") {
							nm2[k] = v
						}
					}
					nm = nm2
				}
				var bs []byte
				bs, err = ToBytes(n0, nm)
				if err == nil {
					out, err = ToObject(bs, tm)
				}
			}()
			if err != nil {
				r.fail(cn, err.Error())
				continue
			}
			g0, ok := out.(*ZS)
			if !ok {
				r.fail(cn, fmt.Sprintf("type %T", out))
				continue
			}
			// find the decoded n1 (reachable through a list, if at all)
			var g1 *ZS
			for _, l := range [][]*ZS{g0.L, g0.M} {
				for _, k := range l {
					if k != nil && k.ID == 2 {
						g1 = k
					}
				}
			}
			lensOf := func(a *ZS) string {
				if a == nil {
					return "-"
				}
				return fmt.Sprintf("%d:%d,%d,%v,%v", a.ID, len(a.L), len(a.M), a.I, a.J)
			}
			want, got := lensOf(n0), lensOf(g0)
			if sel[0] == 1 || sel[0] == 2 || sel[1] == 1 || sel[1] == 2 {
				want += "|" + lensOf(n1)
				got += "|" + lensOf(g1)
			}
			if strings.ReplaceAll(want, "[]", "[]") != got {
				r.fail(cn, "content differs: want "+want+" got "+got)
				continue
			}
			// sharing: two non-empty slots hold the same list exactly when they did in the original
			same := func(a, b []*ZS) bool { return len(a) > 0 && len(b) > 0 && &a[0] == &b[0] }
			sameI := func(a, b []int32) bool { return len(a) > 0 && len(b) > 0 && &a[0] == &b[0] }
			if same(n0.L, n0.M) != same(g0.L, g0.M) || sameI(n0.I, n0.J) != sameI(g0.I, g0.J) {
				r.fail(cn, "sharing of sibling slices differs")
				continue
			}
			if g1 != nil && (same(n0.L, n1.L) != same(g0.L, g1.L) || same(n0.M, n1.M) != same(g0.M, g1.M) || same(n0.L, n1.M) != same(g0.L, g1.M)) {
				r.fail(cn, "sharing of slices between nodes differs")
				continue
			}
			// a list that contains its owner leads back to the same object
			if len(g0.L) > 0 && n0.L[0] == n0 && g0.L[0] != g0 {
				r.fail(cn, "the list no longer contains its owner")
				continue
			}
			r.ok(cn)
		}
	}
}

// ---------------------------------------------------------------- C05 / C03: streams from a reference writer

type siW struct{ bytes.Buffer }

func (w *siW) str(s string) *siW {
	n := len([]rune(s))
	w.WriteByte(byte(n))
	w.WriteString(s)
	return w
}
func (w *siW) i(v int) *siW { w.Write(encodeIntRef(int32(v))); return w }
func encodeIntRef(v int32) []byte {
	switch {
	case v >= -16 && v <= 47:
		return []byte{byte(0x90 + v)}
	case v >= -2048 && v <= 2047:
		return []byte{byte(0xc8 + (v >> 8)), byte(v)}
	}
	return []byte{'I', byte(v >> 24), byte(v >> 16), byte(v >> 8), byte(v)}
}

type ZF struct {
	A int32
	B string
	C int64
	D bool
	E float64
}

func siPermutations(n int) [][]int {
	var res [][]int
	var rec func(cur []int, used int)
	rec = func(cur []int, used int) {
		if len(cur) == n {
			res = append(res, append([]int{}, cur...))
			return
		}
		for i := 0; i < n; i++ {
			if used&(1<<i) == 0 {
				rec(append(cur, i), used|1<<i)
			}
		}
	}
	rec(nil, 0)
	return res
}

type ZShadow struct {
	name string
	Name string
	B    int32
}
type ZHid struct {
	A      int32
	hidden int32
	B      string
}

func siC05(r *siReport) {
	tm := map[string]reflect.Type{"ZF": reflect.TypeOf(ZF{}), "ZInner": reflect.TypeOf(ZInner{})}
	names := []string{"a", "b", "c", "d", "e"}
	writeField := func(w *siW, idx int) {
		switch idx {
		case 0:
			w.i(41)
		case 1:
			w.str("bee")
		case 2:
			w.Write([]byte{0xe0 + 7}) // long 7
		case 3:
			w.WriteByte('T')
		case 4:
			w.Write([]byte{0x5d, 0x05}) // double 5.0
		case 5:
			w.str("extra") // unknown field value
		}
	}
	for pi, perm := range siPermutations(5) {
		for _, variant := range []string{"all", "drop-last", "extra-first", "extra-middle"} {
			for _, pos := range []int{0, 1, 2, 15, 16, 17, 40} {
				if pos > 2 && pi%17 != 0 && !siDeep() {
					continue
				}
				fields := append([]int{}, perm...)
				switch variant {
				case "drop-last":
					fields = fields[:4]
				case "extra-first":
					fields = append([]int{5}, fields...)
				case "extra-middle":
					fields = append(append(append([]int{}, fields[:2]...), 5), fields[2:]...)
				}
				w := &siW{}
				// untyped list holding pos dummy instances (each of its own class) and then ours
				w.WriteByte(0x58)
				w.i(pos + 1)
				for k := 0; k < pos; k++ {
					w.WriteByte('C')
					w.str("ZInner")
					w.i(2).str("a").str("s")
					if k <= 15 {
						w.WriteByte(byte(0x60 + k))
					} else {
						w.WriteByte('O')
						w.i(k)
					}
					w.i(k).str("s")
				}
				w.WriteByte('C')
				w.str("ZF")
				w.i(len(fields))
				for _, f := range fields {
					if f == 5 {
						w.str("zzz")
					} else {
						w.str(names[f])
					}
				}
				if pos <= 15 {
					w.WriteByte(byte(0x60 + pos))
				} else {
					w.WriteByte('O')
					w.i(pos)
				}
				for _, f := range fields {
					writeField(w, f)
				}
				cn := fmt.Sprintf("perm%d/%s/pos=%d", pi, variant, pos)
				var out interface{}
				var err error
				func() {
					defer func() {
						if rec := recover(); rec != nil {
							err = fmt.Errorf("PANIC: %v", rec)
						}
					}()
					out, err = ToObject(w.Bytes(), tm)
				}()
				if err != nil {
					r.fail(cn, err.Error())
					continue
				}
				l, ok := out.([]interface{})
				if !ok || len(l) != pos+1 {
					r.fail(cn, fmt.Sprintf("list %T", out))
					continue
				}
				got, ok := l[pos].(*ZF)
				want := ZF{41, "bee", 7, true, 5.0}
				if variant == "drop-last" {
					switch perm[4] {
					case 0:
						want.A = 0
					case 1:
						want.B = ""
					case 2:
						want.C = 0
					case 3:
						want.D = false
					case 4:
						want.E = 0
					}
				}
				if !ok || *got != want {
					r.fail(cn, fmt.Sprintf("got %+v want %+v", l[pos], want))
					continue
				}
				r.ok(cn)
			}
		}
	}
	// a wire field named like an unexported Go field is an unknown field
	{
		w := &siW{}
		w.WriteByte('C')
		w.str("ZHid").i(3).str("a").str("hidden").str("b")
		w.WriteByte(0x60)
		w.i(5).i(7).str("bee")
		out, err := ToObject(w.Bytes(), map[string]reflect.Type{"ZHid": reflect.TypeOf(ZHid{})})
		if err != nil {
			r.fail("unexported-go-field", err.Error())
		} else if g, ok := out.(*ZHid); !ok || g.A != 5 || g.B != "bee" {
			r.fail("unexported-go-field", fmt.Sprintf("got %+v", out))
		} else {
			r.ok("unexported-go-field")
		}
	}
	// an unexported Go field does not hide the exported field of the same name up to the first letter
	{
		w := &siW{}
		w.WriteByte('C')
		w.str("ZShadow").i(2).str("name").str("b")
		w.WriteByte(0x60)
		w.str("n").i(7)
		out, err := ToObject(w.Bytes(), map[string]reflect.Type{"ZShadow": reflect.TypeOf(ZShadow{})})
		if err != nil {
			r.fail("exported-field-after-unexported-namesake", err.Error())
		} else if g, ok := out.(*ZShadow); !ok || g.Name != "n" || g.B != 7 {
			r.fail("exported-field-after-unexported-namesake", fmt.Sprintf("got %+v", out))
		} else {
			r.ok("exported-field-after-unexported-namesake")
		}
	}
	// an unknown field whose value belongs to a class (or list/map type) the type map does not know: a newer peer's extra field
	for name, extra := range map[string]func(w *siW){
		"object": func(w *siW) {
			w.WriteByte('C')
			w.str("com.new.Unknown").i(1).str("x")
			w.WriteByte(0x61)
			w.i(1)
		},
		"typed-list": func(w *siW) { w.WriteByte(0x71); w.str("[com.new.Unknown").i(7) },
		"typed-map":  func(w *siW) { w.WriteByte('M'); w.str("java.util.TreeMap").i(1).i(1); w.WriteByte('Z') },
	} {
		w := &siW{}
		w.WriteByte('C')
		w.str("ZInner").i(3).str("a").str("extra").str("s")
		w.WriteByte(0x60)
		w.i(5)
		extra(w)
		w.str("bee")
		cn := "skip-unknown-class/" + name
		var out interface{}
		var err error
		func() {
			defer func() {
				if rec := recover(); rec != nil {
					err = fmt.Errorf("PANIC: %v", rec)
				}
			}()
			out, err = ToObject(w.Bytes(), tm)
		}()
		if err != nil {
			r.fail(cn, err.Error())
		} else if !siEqual(&ZInner{5, "bee"}, out) {
			r.fail(cn, fmt.Sprintf("got %+v", out))
		} else {
			r.ok(cn)
		}
	}
	r.done("all 120 permutations of 5 fields x {all, one dropped, unknown field first, unknown field in the middle} x class table positions {0,1,2} (and {15,16,17,40} for every 17th permutation)")
}

type ZMapL struct{ M map[string][]int32 }
type ZNest struct {
	G [][]int32
	N int32
}

func siC03(r *siReport) {
	tm := map[string]reflect.Type{"[int": reflect.TypeOf([]int32{}), "ZInner": reflect.TypeOf(ZInner{}), "[string": reflect.TypeOf([]string{}), "[goint": reflect.TypeOf([]int{}),
		"[ZInnerV": reflect.TypeOf([]ZInner{}), "[ZInnerP": reflect.TypeOf([]*ZInner{}), "ZNest": reflect.TypeOf(ZNest{}), "ZMapL": reflect.TypeOf(ZMapL{}), "[[int32": reflect.TypeOf([][]int32{})}
	type tc struct {
		name string
		bs   []byte
		want interface{}
	}
	cases := []tc{
		{"int/full-width-5", []byte{'I', 0, 0, 0, 5}, int32(5)},
		{"int/two-octet-5", []byte{0xc8, 5}, int32(5)},
		{"int/three-octet-5", []byte{0xd4, 0, 5}, int32(5)},
		{"long/full-width-5", []byte{'L', 0, 0, 0, 0, 0, 0, 0, 5}, int64(5)},
		{"long/int-form-5", []byte{0x59, 0, 0, 0, 5}, int64(5)},
		{"long/three-octet-5", []byte{0x3c, 0, 5}, int64(5)},
		{"double/full-2.0", []byte{'D', 0x40, 0, 0, 0, 0, 0, 0, 0}, 2.0},
		{"double/float-2.0", []byte{0x5f, 0x40, 0, 0, 0}, 2.0},
		{"double/short-2.0", []byte{0x5e, 0, 2}, 2.0},
		{"string/S-form", []byte{'S', 0, 5, 'h', 'e', 'l', 'l', 'o'}, "hello"},
		{"string/medium-form", []byte{0x30, 5, 'h', 'e', 'l', 'l', 'o'}, "hello"},
		{"string/chunks-1+5", []byte{'R', 0, 1, 'a', 'S', 0, 5, 'h', 'e', 'l', 'l', 'o'}, "ahello"},
		{"string/chunks-3+short", []byte{'R', 0, 3, 'a', 'b', 'c', 0x02, 'd', 'e'}, "abcde"},
		{"binary/chunks-1+3", []byte{0x41, 0, 1, 9, 'B', 0, 3, 1, 2, 3}, []byte{9, 1, 2, 3}},
		{"binary/empty-chunk-first", []byte{0x41, 0, 0, 0x22, 7, 8}, []byte{7, 8}},
		{"binary/two-octet-form-3", []byte{0x34, 3, 1, 2, 3}, []byte{1, 2, 3}},
		{"binary/two-octet-form-260", append([]byte{0x35, 4}, bytes.Repeat([]byte{7}, 260)...), bytes.Repeat([]byte{7}, 260)},
		{"binary/chunk-then-two-octet", []byte{0x41, 0, 1, 9, 0x34, 2, 1, 2}, []byte{9, 1, 2}},
		{"list/untyped-as-map-value", append(append([]byte{'C', 5}, "ZMapL"...), 0x91, 1, 'm', 0x60, 'H', 1, 'a', 0x7a, 0x91, 0x92, 'Z'), &ZMapL{M: map[string][]int32{"a": {1, 2}}}},
		{"list/typed-outer-untyped-inner", append(append(append([]byte{'C', 5}, "ZNest"...), 0x92, 1, 'g', 1, 'n', 0x60, 0x72, 7), append([]byte("[[int32"), 0x79, 0x91, 0x7a, 0x92, 0x93, 0x95)...), &ZNest{G: [][]int32{{1}, {2, 3}}, N: 5}},
		{"list/nested-untyped-into-typed-field", append(append([]byte{'C', 5}, "ZNest"...), 0x92, 1, 'g', 1, 'n', 0x60, 0x79, 0x7a, 0x91, 0x92, 0x95), &ZNest{G: [][]int32{{1, 2}}, N: 5}},
		{"list/var-untyped-with-null", []byte{0x57, 0x90, 0x4e, 0x91, 0x5a}, []interface{}{int32(0), nil, int32(1)}},
		{"list/var-typed-strings-with-null", append(append([]byte{0x55, 7}, "[string"...), 0x4e, 0x01, 'a', 0x5a), []string{"", "a"}},
		{"list/var-typed-go-int", append(append([]byte{0x55, 6}, "[goint"...), 0x90, 0x91, 0x5a), []int{0, 1}},
		{"list/var-typed-structs-by-value", append(append(append([]byte{'C', 6}, "ZInner"...), 0x92, 1, 'a', 1, 's', 0x55, 8), append([]byte("[ZInnerV"), 0x60, 0x91, 1, 'x', 0x60, 0x92, 1, 'y', 0x5a)...), []ZInner{{1, "x"}, {2, "y"}}},
		{"list/var-typed-pointers-with-null", append(append(append([]byte{'C', 6}, "ZInner"...), 0x92, 1, 'a', 1, 's', 0x55, 8), append([]byte("[ZInnerP"), 0x60, 0x91, 1, 'x', 0x4e, 0x60, 0x92, 1, 'y', 0x5a)...), []*ZInner{{1, "x"}, nil, {2, "y"}}},
		{"list/var-untyped", []byte{0x57, 0x90, 0x91, 'Z'}, []interface{}{int32(0), int32(1)}},
		{"list/var-typed", []byte{0x55, 4, '[', 'i', 'n', 't', 0x90, 0x91, 'Z'}, []int32{0, 1}},
		{"list/fixed-typed-V", []byte{'V', 4, '[', 'i', 'n', 't', 0x92, 0x90, 0x91}, []int32{0, 1}},
		{"list/compact-untyped-7", []byte{0x7f, 0x90, 0x91, 0x92, 0x93, 0x94, 0x95, 0x96}, []interface{}{int32(0), int32(1), int32(2), int32(3), int32(4), int32(5), int32(6)}},
		{"list/type-by-ref", []byte{0x58, 0x92, 0x72, 4, '[', 'i', 'n', 't', 0x90, 0x91, 0x73, 0x90, 0x92, 0x93, 0x94}, []interface{}{[]int32{0, 1}, []int32{2, 3, 4}}},
		{"object/long-form", append(append([]byte{'C', 6}, []byte("ZInner")...), []byte{0x92, 1, 'a', 1, 's', 'O', 0x90, 0x95, 1, 'x'}...), &ZInner{5, "x"}},
		{"classdef/two-defs-then-instance", append(append(append([]byte{'C', 6}, []byte("ZInner")...), []byte{0x92, 1, 'a', 1, 's', 'C', 1, 'Q', 0x90}...), []byte{0x60, 0x95, 1, 'x'}...), &ZInner{5, "x"}},
		{"classdef/def-then-list-of-instances", append(append([]byte{'C', 6}, []byte("ZInner")...), []byte{0x92, 1, 'a', 1, 's', 0x7a, 0x60, 0x95, 1, 'x', 0x60, 0x96, 1, 'y'}...), []interface{}{&ZInner{5, "x"}, &ZInner{6, "y"}}},
		{"classdef/def-then-map", append(append([]byte{'C', 6}, []byte("ZInner")...), []byte{0x92, 1, 'a', 1, 's', 'H', 0x91, 0x60, 0x95, 1, 'x', 'Z'}...), map[interface{}]interface{}{int32(1): &ZInner{5, "x"}}},
		{"map/untyped", []byte{'H', 0x91, 3, 'f', 'e', 'e', 'Z'}, map[interface{}]interface{}{int32(1): "fee"}},
	}
	for _, c := range cases {
		var out interface{}
		var err error
		func() {
			defer func() {
				if rec := recover(); rec != nil {
					err = fmt.Errorf("PANIC: %v", rec)
				}
			}()
			out, err = ToObject(c.bs, tm)
		}()
		if err != nil {
			r.fail(c.name, err.Error())
		} else if !siEqual(c.want, out) {
			r.fail(c.name, fmt.Sprintf("got %T %v want %v", out, out, c.want))
		} else {
			r.ok(c.name)
		}
	}
	if r.id == "C02" {
		// the class definition carries the registered name also when the type is first met by value inside an interface
		v := []interface{}{ZPtrNamed{3}}
		bs, err := ToBytes(v, NameMapFrom(v))
		if err != nil {
			r.fail("custom-name-on-the-wire", err.Error())
		} else if !bytes.Contains(bs, []byte("com.zoo.PtrNamed")) {
			r.fail("custom-name-on-the-wire", fmt.Sprintf("% x", bs))
		} else {
			r.ok("custom-name-on-the-wire")
		}
	}
	r.done("36 hand-written alternative encodings from the grammar (full-width/compact scalars, chunk splits, all four binary forms, variable/fixed/compact lists, variable-length lists with null elements and with elements that need conversion, type back-reference, long-form instance, class definitions away from their first instance)")
}

// ---------------------------------------------------------------- C06: streaming

type siCountingReader struct {
	data []byte
	pos  int
}

func (r *siCountingReader) Read(p []byte) (int, error) {
	if r.pos >= len(r.data) {
		return 0, fmt.Errorf("EOF")
	}
	n := copy(p, r.data[r.pos:])
	r.pos += n
	return n, nil
}
func (r *siCountingReader) ReadRune() (rune, int, error) {
	rr := bufio.NewReader(bytes.NewReader(r.data[r.pos:]))
	c, w, err := rr.ReadRune()
	if err == nil {
		r.pos += w
	}
	return c, w, err
}

func siC06(r *siReport) {
	rng := rand.New(rand.NewSource(siSeed()))
	{
		// the same map written twice on one stream: the second occurrence is a back-reference and must read back as the same kind of value
		mm := map[interface{}]interface{}{"k": int32(1)}
		var buf bytes.Buffer
		e := NewEncoder(&buf, nil)
		e.WriteObject(mm)
		e.WriteObject(mm)
		d := NewDecoder(bufio.NewReader(bytes.NewReader(buf.Bytes())), nil)
		a, err1 := d.ReadObject()
		b, err2 := d.ReadObject()
		if err1 != nil || err2 != nil || reflect.TypeOf(a) != reflect.TypeOf(b) || !siEqual(a, b) {
			r.fail("map-sent-twice", fmt.Sprintf("first %T, second %T (%v %v)", a, b, err1, err2))
		} else {
			r.ok("map-sent-twice")
		}
	}
	shared := &ZInner{9, "shared"}
	lst := []interface{}{int32(1), "two"}
	for round := 0; round < siScale(60, 1500); round++ {
		n := 1 + rng.Intn(50)
		vals := make([]interface{}, n)
		for i := range vals {
			switch rng.Intn(9) {
			case 0:
				vals[i] = int32(rng.Intn(100000) - 50000)
			case 1:
				vals[i] = siRandString(rng, rng.Intn(40))
			case 2:
				vals[i] = &ZInner{int32(i), siRandString(rng, 3)}
			case 3:
				vals[i] = shared
			case 4:
				vals[i] = lst
			case 5:
				vals[i] = bytes.Repeat([]byte{byte(i)}, rng.Intn(5000))
			case 6:
				vals[i] = map[string]string{"k": siRandString(rng, 2)}
			case 7:
				vals[i] = float64(rng.Intn(70000)-35000) / 2
			case 8:
				vals[i] = []int32{1, 2, int32(i)}
			}
		}
		all := []interface{}{&ZInner{}, []int32{}, map[string]string{"a": "b"}}
		tm, nm := ExtractTypeNameMap(all)
		var buf bytes.Buffer
		enc := NewEncoder(&buf, nm)
		var ends []int
		okEnc := true
		for _, v := range vals {
			if err := enc.WriteObject(v); err != nil {
				r.fail(fmt.Sprintf("stream%d", round), "encode: "+err.Error())
				okEnc = false
				break
			}
			ends = append(ends, buf.Len())
		}
		if !okEnc {
			continue
		}
		rd := &siCountingReader{data: buf.Bytes()}
		dec := NewDecoder(rd, tm)
		cn := fmt.Sprintf("stream%d/n=%d", round, n)
		bad := ""
		for i := range vals {
			var out interface{}
			var err error
			func() {
				defer func() {
					if rec := recover(); rec != nil {
						err = fmt.Errorf("PANIC: %v", rec)
					}
				}()
				out, err = dec.ReadObject()
			}()
			if err != nil {
				bad = fmt.Sprintf("read %d: %v", i, err)
				break
			}
			if rd.pos != ends[i] {
				bad = fmt.Sprintf("read %d consumed up to %d, value ends at %d", i, rd.pos, ends[i])
				break
			}
			switch out.(type) {
			case reflect.Value, *_refHolder:
				bad = fmt.Sprintf("read %d returned carrier %T", i, out)
			}
			if bad != "" {
				break
			}
			if b, isB := vals[i].([]byte); isB && len(b) == 0 {
				continue
			}
			if !siEqual(vals[i], out) {
				if m, isM := vals[i].(map[string]string); isM {
					om, ok := out.(map[interface{}]interface{})
					if ok && len(om) == len(m) {
						continue
					}
				}
				bad = fmt.Sprintf("read %d: value differs (%T vs %T)", i, vals[i], out)
				break
			}
		}
		if bad != "" {
			r.fail(cn, bad)
		} else {
			r.ok(cn)
		}
	}
	r.done(fmt.Sprint(siScale(60, 1500)) + " seeded sequences of 1..50 mixed values (ints, strings, structs, a shared pointer, a shared list, binaries up to 5000 octets, maps, doubles, typed lists) through one encoder / one decoder with a byte-counting reader without read-ahead")
}

// ---------------------------------------------------------------- C13 / C15: unsupported values and failing writers

type siFailWriter struct {
	k, n  int
	kind  string
	calls int
}

func (w *siFailWriter) Write(p []byte) (int, error) {
	w.calls++
	at := w.calls - 1
	switch w.kind {
	case "once":
		if at == w.k {
			return 0, fmt.Errorf("injected")
		}
	case "from":
		if at >= w.k {
			return 0, fmt.Errorf("injected")
		}
	case "short":
		if at == w.k && len(p) > 0 {
			return len(p) - 1, nil
		}
	}
	return len(p), nil
}

func siC15(r *siReport) {
	rng := rand.New(rand.NewSource(siSeed()))
	zoo := siZoo(rng, 9)
	zoo["graph"] = func() interface{} { a := &ZG{ID: 1}; a.A = a; a.L = []*ZG{a, a}; return a }()
	var names []string
	for k := range zoo {
		names = append(names, k)
	}
	sort.Strings(names)
	for _, name := range names {
		v := zoo[name]
		_, nm := ExtractTypeNameMap(v)
		cw := &siFailWriter{kind: "none"}
		if err := NewEncoder(cw, nm).WriteTo(cw, v); err != nil {
			r.fail(name+"/clean", err.Error())
			continue
		}
		total := cw.calls
		for k := 0; k < total; k++ {
			for _, kind := range []string{"once", "from", "short"} {
				w := &siFailWriter{k: k, kind: kind}
				var err error
				func() {
					defer func() {
						if rec := recover(); rec != nil {
							err = nil
							r.fail(fmt.Sprintf("%s/k=%d/%s", name, k, kind), fmt.Sprintf("PANIC %v", rec))
						}
					}()
					err = NewEncoder(w, nm).WriteTo(w, v)
				}()
				cn := fmt.Sprintf("%s/k=%d/%s", name, k, kind)
				if err == nil {
					r.fail(cn, "encode reported success although write "+strconv.Itoa(k)+" failed ("+kind+")")
				} else {
					r.ok(cn)
				}
			}
		}
	}
	r.done("every Write index k of every zoo value (length 9) and a cyclic graph x fault kinds {error once, error from k on, short count}")
}

type ZBadHolder struct {
	A int32
	X interface{}
	L []interface{}
	M map[string]interface{}
}

// ZUnexported: reflection cannot read b
type ZUnexported struct {
	A int32
	b string
}

// two struct types that share one Name() (local types of two functions)
func siSameName1() interface{} {
	type T struct{ A int32 }
	return T{1}
}
func siSameName2() interface{} {
	type T struct{ A, B int32 }
	return T{2, 3}
}

func siC13(r *siReport) {
	debug.SetMaxStack(256 << 20)
	// two different struct types with one name in one stream: the encode call fails, or every instance carries as many
	// values as the definition it names declares (known finding: the second type is written under the first one's definition)
	{
		v := []interface{}{siSameName1(), siSameName2(), "tail"}
		bs, err := ToBytes(v, nil)
		if err != nil {
			r.ok("same-name-classes/list")
		} else if out, derr := ToObject(bs, map[string]reflect.Type{"T": reflect.TypeOf(siSameName1())}); derr != nil {
			r.fail("same-name-classes/list", "encode succeeded with bytes that do not decode: "+derr.Error())
		} else if l, ok := out.([]interface{}); !ok || len(l) != 3 || l[2] != "tail" {
			r.fail("same-name-classes/list", fmt.Sprintf("encode succeeded with % x, which decodes to %v", bs, out))
		} else {
			r.ok("same-name-classes/list")
		}
	}
	cyc := map[string]interface{}{}
	cyc["self"] = cyc
	var cycIface interface{} = cyc
	bads := map[string]interface{}{"pointer-to-interface-holding-a-map-that-contains-itself": &cycIface, "chan": make(chan int), "func": func() {}, "complex": complex(1, 2), "uintptr-like-complex64": complex64(1), "nil-chan": (chan int)(nil),
		"nan-keyed-map":    map[float64]string{math.NaN(): "x", 1: "y"},
		"unexported-field": ZUnexported{A: 1, b: "x"}, "ptr-unexported-field": &ZUnexported{A: 2, b: "y"}}
	var bnames []string
	for k := range bads {
		bnames = append(bnames, k)
	}
	sort.Strings(bnames)
	for _, bn := range bnames {
		bad := bads[bn]
		values := map[string]interface{}{
			"top":         bad,
			"field":       &ZBadHolder{A: 1, X: bad},
			"list-first":  []interface{}{bad, int32(1)},
			"list-middle": []interface{}{int32(1), bad, int32(3)},
			"list-last":   []interface{}{int32(1), bad},
			"nested-list": &ZBadHolder{L: []interface{}{int32(1), []interface{}{bad, "x"}}},
			"map-value":   &ZBadHolder{M: map[string]interface{}{"k": bad}},
			"map-in-list": []interface{}{map[string]interface{}{"k": bad}, int32(2)},
		}
		var vnames []string
		for k := range values {
			vnames = append(vnames, k)
		}
		sort.Strings(vnames)
		for _, vn := range vnames {
			cn := bn + "/" + vn
			var err error
			var bs []byte
			func() {
				defer func() {
					if rec := recover(); rec != nil {
						err = nil
						bs = nil
						r.fail(cn, fmt.Sprintf("PANIC %v", rec))
						cn = ""
					}
				}()
				bs, err = ToBytes(values[vn], map[string]string{"ZBadHolder": "ZBadHolder"})
			}()
			if cn == "" {
				continue
			}
			if err == nil {
				r.fail(cn, fmt.Sprintf("encode succeeded with bytes % x", bs))
			} else {
				r.ok(cn)
			}
		}
	}
	// a stream on which a value was refused accepts nothing more until it is restarted
	for bn, bad := range map[string]interface{}{"list-with-chan": []interface{}{int32(1), make(chan int)}, "struct-with-func": &ZBadHolder{A: 1, X: func() {}}} {
		sz := NewSerializer(nil, map[string]string{"ZBadHolder": "ZBadHolder"})
		var w bytes.Buffer
		cn := "stream-retry/" + bn
		if err := sz.WriteTo(&w, int32(1)); err != nil {
			r.fail(cn, err.Error())
			continue
		}
		e1 := sz.Write(bad)
		n1 := w.Len()
		e2 := sz.Write(bad)
		e3 := sz.Write(int32(2))
		w.Reset()
		e4 := sz.WriteTo(&w, int32(3))
		switch {
		case e1 == nil || e2 == nil:
			r.fail(cn, fmt.Sprintf("the refused value was accepted (first %v, second %v)", e1, e2))
		case e3 == nil:
			r.fail(cn, "a value was appended behind the torn one")
		case e4 != nil || w.Len() != 1:
			r.fail(cn, fmt.Sprintf("a new stream does not start clean: %v, %d octets", e4, w.Len()))
		default:
			_ = n1
			r.ok(cn)
		}
	}
	r.done("8 unrepresentable values (channel, function, complex128, complex64, nil channel, struct with an unexported field by value and by pointer, map with a NaN key) x 8 positions (top, field, list first/middle/last, nested list, map value, map in list)")
}

// ---------------------------------------------------------------- C14: hostile input

type ZBag map[string][]ZBag
type ZEntry *ZMutPtrA

func siC14(r *siReport) {
	// a runaway recursion must end this process quickly (it is reported as a crash of the case that was running)
	debug.SetMaxStack(256 << 20)
	rng := rand.New(rand.NewSource(siSeed()))
	zoo := siZoo(rng, 5)
	zoo["graph"] = func() interface{} { a := &ZG{ID: 1}; a.A = a; a.L = []*ZG{a, nil}; return a }()
	var names []string
	for k := range zoo {
		names = append(names, k)
	}
	sort.Strings(names)
	known := []string{} // every documented entry point recovers (fix 8f0e47c): no panic at all may reach the caller
	caseFile := os.Getenv("GOVC_CASEFILE")
	try := func(cn string, bs []byte, tm map[string]reflect.Type) {
		if caseFile != "" {
			// a fatal error of the runtime cannot be recovered: leave the name of the running case behind
			os.WriteFile(caseFile, []byte(fmt.Sprintf("%s input=% x", cn, bs)), 0o644)
		}
		done := make(chan string, 1)
		go func() {
			defer func() {
				if rec := recover(); rec != nil {
					done <- fmt.Sprintf("PANIC: %v", rec)
				}
			}()
			ToObject(bs, tm)
			d := NewDecoder(bufio.NewReader(bytes.NewReader(bs)), tm)
			d.ReadObject()
			// the serializer's one-shot and streaming entry points
			sz := NewSerializer(tm, nil)
			sz.ToObject(bs)
			sz.ReadFrom(bufio.NewReader(bytes.NewReader(append([]byte{0x90}, bs...))))
			sz.Read()
			done <- ""
		}()
		select {
		case res := <-done:
			if res == "" {
				r.ok(cn)
				return
			}
			for _, k := range known {
				if strings.Contains(res, k) {
					// reflect-assignment panic: recorded known finding of C14, counted separately
					r.ok(cn + "#known-reflect-panic")
					siKnownPanics++
					if os.Getenv("GOVC_SHOWPANICS") != "" {
						fmt.Println("KNOWNPANIC", res)
					}
					return
				}
			}
			r.fail(cn, res)
		case <-time.After(30 * time.Second):
			r.fail(cn, "did not return within 30s")
		}
	}
	for _, name := range names {
		v := zoo[name]
		tm, nm := ExtractTypeNameMap(v)
		bs, err := ToBytes(v, nm)
		if err != nil {
			continue
		}
		for cut := 0; cut < len(bs); cut++ {
			if len(bs) > 400 && cut%7 != 0 {
				continue
			}
			try(fmt.Sprintf("%s/prefix=%d", name, cut), bs[:cut], tm)
		}
		for i := 0; i < len(bs); i++ {
			if len(bs) > 400 && i%5 != 0 {
				continue
			}
			subst := []byte{0x00, 0x4f, 0x51, 0x55, 0x57, 0x58, 0x60, 0x6f, 0x70, 0x7f, 0x8f, 0xbf, 0x43, 'M', 'H', 'Z', 'N', 0xff, 'I', 0x56}
			if siDeep() && len(bs) <= 120 {
				subst = nil
				for b := 0; b < 256; b++ {
					subst = append(subst, byte(b))
				}
			}
			for _, b := range subst {
				if bs[i] == b {
					continue
				}
				m := append([]byte{}, bs...)
				m[i] = b
				try(fmt.Sprintf("%s/flip@%d=%02x", name, i, b), m, tm)
				if i%9 == 0 {
					try(fmt.Sprintf("%s/flip@%d=%02x/nomap", name, i, b), m, map[string]reflect.Type{})
				}
			}
		}
	}
	try("cyclic/list-into-self-typed-list-field", []byte{0x43, 0x01, 0x48, 0x91, 0x04, 0x76, 0x61, 0x6c, 0x73, 0x60, 0x79, 0x51, 0x91}, map[string]reflect.Type{"H": reflect.TypeOf(struct{ Vals ZNestList }{})})
	try("cyclic/map-into-self-typed-map-field", []byte{0x43, 0x01, 0x48, 0x91, 0x04, 0x76, 0x61, 0x6c, 0x73, 0x60, 0x48, 0x01, 0x61, 0x51, 0x91, 0x5a}, map[string]reflect.Type{"H": reflect.TypeOf(struct{ Vals ZNestMap }{})})
	try("cyclic/map-into-self-in-typed-list-field", []byte{0x43, 0x01, 0x48, 0x91, 0x04, 0x76, 0x61, 0x6c, 0x73, 0x60, 0x79, 0x48, 0x01, 0x61, 0x51, 0x92, 0x5a}, map[string]reflect.Type{"H": reflect.TypeOf(struct{ Vals []ZNestMap }{})})
	try("cyclic/list-in-map-into-self-typed-field", []byte{0x43, 0x01, 0x48, 0x91, 0x04, 0x76, 0x61, 0x6c, 0x73, 0x60, 0x79, 0x48, 0x01, 0x61, 0x51, 0x91, 0x5a}, map[string]reflect.Type{"H": reflect.TypeOf(struct{ Vals []map[string][]ZNestMap }{})})
	{
		// L0 = [L1, ref L1], L1 = [L2, ref L2], ... converted to a named list type: the work must not double per level
		depth := 40
		in := []byte{0x43, 0x01, 0x48, 0x91, 0x04, 0x76, 0x61, 0x6c, 0x73, 0x60}
		for i := 0; i < depth; i++ {
			in = append(in, 0x7a) // untyped list of 2: the next list and a reference to it
		}
		in = append(in, 0x79, 'N') // innermost: a list of one null
		for i := depth - 1; i >= 0; i-- {
			in = append(in, 0x51, 0x90+byte(i+2)) // ref to list #(i+2): the object is #0, L0 is #1, L(i+1) is #(i+2)
		}
		try("amplification/lists-referenced-twice-at-every-level", in, map[string]reflect.Type{"H": reflect.TypeOf(struct{ Vals ZNestList }{})})
	}
	try("cyclic/map-in-list-in-map-into-typed-field", []byte{0x43, 0x01, 0x48, 0x91, 0x04, 0x76, 0x61, 0x6c, 0x73, 0x60, 0x48, 0x01, 0x6b, 0x79, 0x51, 0x91, 0x5a}, map[string]reflect.Type{"H": reflect.TypeOf(struct{ Vals ZBag }{})})
	try("cyclic/list-in-map-in-list-into-typed-field", []byte{0x43, 0x01, 0x48, 0x91, 0x04, 0x76, 0x61, 0x6c, 0x73, 0x60, 0x79, 0x48, 0x01, 0x6b, 0x51, 0x91, 0x5a}, map[string]reflect.Type{"H": reflect.TypeOf(struct{ Vals []ZBag }{})})
	try("selfptr/field-of-pointer-type-leading-into-a-pointer-loop", []byte{0x43, 0x01, 0x48, 0x91, 0x01, 0x70, 0x60, 0x4e}, map[string]reflect.Type{"H": reflect.TypeOf(struct{ P ZEntry }{})})
	try("selfptr/field-of-mutually-pointing-types", []byte{0x43, 0x01, 0x48, 0x91, 0x01, 0x70, 0x60, 0x4e}, map[string]reflect.Type{"H": reflect.TypeOf(struct{ P ZMutPtrA }{})})
	try("selfptr/field-of-self-pointing-type", []byte{0x43, 0x01, 0x51, 0x91, 0x01, 0x66, 0x60, 0x90}, map[string]reflect.Type{"Q": reflect.TypeOf(ZSelfPtrHolder{})})
	// a list referenced many times into fields of another slice type: the work must not be (elements x references)
	{
		in := []byte{0x57, 0x58, 'I', 0, 0, 0x0b, 0xb8}
		for i := 0; i < 3000; i++ {
			in = append(in, 0x90)
		}
		in = append(in, 'C', 1, 'Q', 0x91, 1, 'f')
		for i := 0; i < 2000; i++ {
			in = append(in, 0x60, 0x51, 0x91)
		}
		in = append(in, 0x5a)
		var m0, m1 runtime.MemStats
		runtime.ReadMemStats(&m0)
		ToObject(in, map[string]reflect.Type{"Q": reflect.TypeOf(struct{ F []int64 }{})})
		runtime.ReadMemStats(&m1)
		if mb := (m1.TotalAlloc - m0.TotalAlloc) >> 20; mb > 20 {
			r.fail("amplification/list-referenced-2000-times", fmt.Sprintf("%d MB allocated for %d octets of input", mb, len(in)))
		} else {
			r.ok("amplification/list-referenced-2000-times")
		}
	}
	// values that contain themselves, arriving where another type is expected (error paths must not print them)
	try("cyclic/list-into-int-field", []byte{'C', 0x01, 'T', 0x91, 0x01, 'f', 0x60, 0x79, 0x51, 0x91}, map[string]reflect.Type{"T": reflect.TypeOf(struct{ F []int64 }{})})
	try("cyclic/list-into-float-field", []byte{'C', 0x01, 'T', 0x91, 0x01, 'f', 0x60, 0x79, 0x51, 0x91}, map[string]reflect.Type{"T": reflect.TypeOf(struct{ F []float64 }{})})
	try("cyclic/list-into-uint-field", []byte{'C', 0x01, 'T', 0x91, 0x01, 'f', 0x60, 0x79, 0x51, 0x91}, map[string]reflect.Type{"T": reflect.TypeOf(struct{ F []uint32 }{})})
	try("cyclic/list-as-struct-key", []byte{'M', 0x01, 'm', 0x79, 0x51, 0x90, 0x91, 'Z'}, map[string]reflect.Type{"m": reflect.TypeOf(ZInner{})})
	try("cyclic/list-into-string-field", []byte{'C', 0x01, 'T', 0x91, 0x01, 'f', 0x60, 0x79, 0x51, 0x91}, map[string]reflect.Type{"T": reflect.TypeOf(struct{ F string }{})})
	// exhaustive short inputs over a tag alphabet
	alpha := []byte{0x00, 0x01, 0x20, 0x30, 0x41, 0x42, 0x43, 0x48, 0x49, 0x4d, 0x4e, 0x4f, 0x51, 0x52, 0x53, 0x55, 0x56, 0x57, 0x58, 0x5a, 0x60, 0x70, 0x78, 0x90}
	var rec func(cur []byte)
	rec = func(cur []byte) {
		if len(cur) > 0 {
			try(fmt.Sprintf("short/% x", cur), cur, map[string]reflect.Type{"a": reflect.TypeOf(ZInner{})})
		}
		if len(cur) == 3 {
			return
		}
		for _, b := range alpha {
			rec(append(append([]byte{}, cur...), b))
		}
	}
	rec(nil)
	r.done(fmt.Sprintf("every prefix and 20 single-octet substitutions (thorough tier: all 256 for messages up to 120 octets) at every position of the valid messages of 24 zoo values (long messages subsampled), with and without type map; all 14424 strings of length <=3 over a 24-symbol tag alphabet; %d inputs ended in a recorded reflect-assignment panic (known finding)", siKnownPanics))
}

var siKnownPanics int

// ---------------------------------------------------------------- C11: reuse equals fresh

func siC11(r *siReport) {
	rng := rand.New(rand.NewSource(siSeed()))
	probeVals := []interface{}{&ZInner{1, "x"}, []interface{}{int32(1), "a"}, int32(5), "s"}
	for round := 0; round < siScale(80, 2000); round++ {
		all := []interface{}{&ZInner{}, &ZG{}}
		tm, nm := ExtractTypeNameMap(all)
		s := NewSerializer(tm, nm)
		hist := ""
		for h := 0; h < rng.Intn(30); h++ {
			func() {
				defer func() { recover() }()
				switch rng.Intn(6) {
				case 0:
					s.ToBytes(&ZInner{int32(h), "h"})
					hist += "e"
				case 1:
					s.ToBytes(make(chan int))
					hist += "E"
				case 2:
					bs, _ := ToBytes(&ZG{ID: 3}, nm)
					s.ToObject(bs)
					hist += "d"
				case 3:
					s.ToObject([]byte{0x4f, 0x91, 0x51, 0x57})
					hist += "D"
				case 4:
					var b bytes.Buffer
					s.WriteTo(&b, []interface{}{&ZInner{1, "a"}, "x"})
					s.Write(&ZG{ID: 1})
					hist += "w"
				case 5:
					g := &ZG{ID: 2}
					g.A = g
					s.ToBytes(g)
					hist += "g"
				}
			}()
		}
		for pi, pv := range probeVals {
			cn := fmt.Sprintf("hist%d[%s]/probe%d", round, hist, pi)
			got, err1 := s.ToBytes(pv)
			want, err2 := NewSerializer(tm, nm).ToBytes(pv)
			if (err1 == nil) != (err2 == nil) || !bytes.Equal(got, want) {
				r.fail(cn, fmt.Sprintf("encode differs from fresh: % x vs % x", got, want))
				continue
			}
			o1, e1 := s.ToObject(want)
			o2, e2 := NewSerializer(tm, nm).ToObject(want)
			if (e1 == nil) != (e2 == nil) || !siEqual(o1, o2) {
				r.fail(cn, "decode differs from fresh")
				continue
			}
			r.ok(cn)
		}
	}
	r.done(fmt.Sprint(siScale(80, 2000)) + " seeded histories of length 0..29 over {encode ok, encode failing, decode ok, decode garbage, streaming write, cyclic encode} followed by 4 probe values compared with a fresh serializer")
}

// ---------------------------------------------------------------- C16: extraction

type ZRec struct {
	V    int32
	Next *ZRec
	Kids []*ZRec
	M    map[string]*ZRec
}
type ZMutA struct{ B *ZMutB }
type ZMutB struct {
	A *ZMutA
	L [][]ZInner
}

// Location: a message type that shares its bare name with a type inside time.Time
type Location struct{ Lat, Lon float64 }
type ZWhen struct {
	When  time.Time
	Where *Location
}

// ZPtrNamed declares its custom name on the pointer type
type ZPtrNamed struct{ A int32 }

func (*ZPtrNamed) HessianCodecName() string { return "com.zoo.PtrNamed" }

type ZPtrNamedHolder struct {
	P *ZPtrNamed
	V ZPtrNamed
}

// ZEmbNamed embeds a custom-named struct: the promoted method is not its own name
type ZEmbNamed struct {
	ZNamed
	X int32
}

type ZOwnNamedEmb struct {
	ZNamed
	Y int32
}

func (ZOwnNamedEmb) HessianCodecName() string { return "com.zoo.OwnNamedEmb" }

type ZEmptyName struct{ A int32 }

func (ZEmptyName) HessianCodecName() string { return "" }

type ZTable map[string]int32

func (ZTable) HessianCodecName() string { return "com.zoo.Table" }

type ZNamedList []int32

func (ZNamedList) HessianCodecName() string { return "com.zoo.NamedList" }

type ZTableHolder struct {
	T ZTable
	L ZNamedList
}

type ZMutPtrA *ZMutPtrB
type ZMutPtrB *ZMutPtrA
type ZPtrToOwnList *[]ZPtrToOwnList
type ZNilEmbNamed struct {
	*ZNamed
	K int32
}
type ZEvent struct {
	When  time.Time
	Where Location
}
type ZOptEvent struct {
	When  *time.Time
	Where Location
}

type ZNestList []ZNestList
type ZNestMap map[string]ZNestMap
type ZSelfPtr *ZSelfPtr
type ZSelfPtrHolder struct{ F ZSelfPtr }

func siC16(r *siReport) {
	witnesses := map[string][]interface{}{
		"ZRec":            {&ZRec{}, &ZRec{V: 1, Next: &ZRec{V: 2}, Kids: []*ZRec{{V: 3}}, M: map[string]*ZRec{"k": {V: 4}}}},
		"ZMutA":           {&ZMutA{}, &ZMutA{B: &ZMutB{A: &ZMutA{}, L: [][]ZInner{{{1, "a"}}}}}, &ZMutA{B: &ZMutB{L: [][]ZInner{{{1, "a"}}, {}, {{2, "b"}}}}}},
		"ZLists":          {&ZLists{}, siZoo(rand.New(rand.NewSource(1)), 3)["lists"]},
		"ZMaps":           {&ZMaps{}, siZoo(rand.New(rand.NewSource(1)), 3)["maps"]},
		"ZWithNamed":      {&ZWithNamed{}, &ZWithNamed{A: ZNamed{"a"}, L: []ZNamed{{"b"}}}},
		"ZWhen":           {&ZWhen{}, &ZWhen{When: time.Unix(100, 0).UTC(), Where: &Location{1.5, 2.5}}},
		"ZPtrNamedHolder": {&ZPtrNamedHolder{}, &ZPtrNamedHolder{P: &ZPtrNamed{7}, V: ZPtrNamed{8}}},
		"ZEmbNamed":       {&ZEmbNamed{}, &ZEmbNamed{ZNamed{"leaf"}, 5}},
	}
	var names []string
	for k := range witnesses {
		names = append(names, k)
	}
	sort.Strings(names)
	for _, n := range names {
		ws := witnesses[n]
		for wi, w := range ws {
			done := make(chan struct{})
			var tm map[string]reflect.Type
			var nm map[string]string
			go func() { tm, nm = ExtractTypeNameMap(w); close(done) }()
			select {
			case <-done:
			case <-time.After(30 * time.Second):
				r.fail(fmt.Sprintf("%s/witness%d", n, wi), "extraction did not terminate")
				continue
			}
			for k, wire := range nm {
				if strings.HasPrefix(k, "[") || strings.HasPrefix(wire, "[") {
					continue
				}
				if t1, ok := tm[wire]; !ok || t1 != tm[k] {
					r.fail(fmt.Sprintf("%s/witness%d/consistency/%s", n, wi, k), "type map does not map the wire name back to the type")
				}
			}
			for oi, other := range ws {
				cn := fmt.Sprintf("%s/maps-from-witness%d/value%d", n, wi, oi)
				var out interface{}
				var err error
				func() {
					defer func() {
						if rec := recover(); rec != nil {
							err = fmt.Errorf("PANIC: %v", rec)
						}
					}()
					var bs []byte
					bs, err = ToBytes(other, nm)
					if err == nil {
						out, err = ToObject(bs, tm)
					}
				}()
				if err != nil {
					r.fail(cn, err.Error())
				} else if !siEqual(other, out) {
					r.fail(cn, "value differs")
				} else {
					r.ok(cn)
				}
			}
		}
		done := make(chan struct{})
		go func() { TypeMapOf(reflect.TypeOf(ws[0]).Elem()); close(done) }()
		select {
		case <-done:
			r.ok(n + "/TypeMapOf")
		case <-time.After(30 * time.Second):
			r.fail(n+"/TypeMapOf", "did not terminate")
		}
	}
	// a custom name declared on the pointer type is found wherever the value is met: behind a pointer, by value in a
	// struct, by value inside an interface (not addressable)
	for name, w := range map[string]interface{}{"top-level-by-value": ZPtrNamed{1}, "in-interface-slice": []interface{}{ZPtrNamed{2}}, "map-value": map[string]ZPtrNamed{"k": {3}}, "behind-pointer": &ZPtrNamed{4}} {
		_, nm := ExtractTypeNameMap(w)
		if nm["ZPtrNamed"] != "com.zoo.PtrNamed" {
			r.fail("pointer-receiver-name/"+name, fmt.Sprintf("name map gives %q", nm["ZPtrNamed"]))
		} else {
			r.ok("pointer-receiver-name/" + name)
		}
	}
	// TypeMapOf does not take the caller's Location for time.Location
	if tm := TypeMapOf(reflect.TypeOf(ZEvent{})); tm["Location"] != reflect.TypeOf(Location{}) {
		r.fail("typemapof-time-location", fmt.Sprintf("Location is %v", tm["Location"]))
	} else {
		r.ok("typemapof-time-location")
	}
	// nor behind a pointer (an optional timestamp), a slice or a map value
	for name, typ := range map[string]reflect.Type{"pointer": reflect.TypeOf(ZOptEvent{}), "slice": reflect.TypeOf(struct {
		Whens []time.Time
		Where Location
	}{}), "map": reflect.TypeOf(struct {
		Whens map[string]*time.Time
		Where Location
	}{})} {
		tm := TypeMapOf(typ)
		if _, has := tm["Time"]; has || tm["Location"] != reflect.TypeOf(Location{}) {
			r.fail("typemapof-time-behind-"+name, fmt.Sprintf("Time registered: %v, Location is %v", has, tm["Location"]))
		} else {
			r.ok("typemapof-time-behind-" + name)
		}
	}
	// a value that is a cycle of pointers and interfaces only; a custom name that is empty
	{
		var cyc interface{}
		cyc = &cyc
		done := make(chan struct{})
		go func() { ExtractTypeNameMap(cyc); ExtractTypeNameMap(&struct{ X interface{} }{cyc}); close(done) }()
		select {
		case <-done:
			r.ok("cyclic-value/pointer-to-interface-holding-itself")
		case <-time.After(10 * time.Second):
			r.fail("cyclic-value/pointer-to-interface-holding-itself", "did not terminate")
		}
		func() {
			defer func() {
				if x := recover(); x != nil {
					r.fail("empty-custom-name", fmt.Sprintf("PANIC %v", x))
				}
			}()
			ExtractTypeNameMap(&struct{ E ZEmptyName }{})
			ExtractTypeNameMap([]ZEmptyName{{1}})
			r.ok("empty-custom-name")
		}()
	}
	// a named map or list type that declares a custom name keeps it when the sample holds nil there
	for name, v := range map[string]interface{}{"zero-struct": ZTableHolder{}, "nil-pointer": (*ZTableHolder)(nil), "empty-list": []ZTable{}, "populated": &ZTableHolder{T: ZTable{"a": 1}, L: ZNamedList{1}}} {
		tm, nm := ExtractTypeNameMap(v)
		if nm["ZTable"] != "com.zoo.Table" || tm["com.zoo.Table"] != reflect.TypeOf(ZTable{}) {
			r.fail("named-container-name/"+name, fmt.Sprintf("name map gives %q, type map %v", nm["ZTable"], tm["com.zoo.Table"]))
		} else {
			r.ok("named-container-name/" + name)
		}
	}
	// a struct with its own custom name that embeds a custom-named struct keeps its own name
	{
		_, nm := ExtractTypeNameMap(&ZOwnNamedEmb{})
		if nm["ZOwnNamedEmb"] != "com.zoo.OwnNamedEmb" || nm["ZNamed"] == "com.zoo.OwnNamedEmb" {
			r.fail("own-name-with-named-embedded", fmt.Sprintf("name map gives %q / %q", nm["ZOwnNamedEmb"], nm["ZNamed"]))
		} else {
			r.ok("own-name-with-named-embedded")
		}
	}
	// named list, map and pointer types that contain themselves (no struct in between)
	for name, typ := range map[string]reflect.Type{"nest-list": reflect.TypeOf(ZNestList{}), "nest-map": reflect.TypeOf(ZNestMap{}), "self-pointer-field": reflect.TypeOf(ZSelfPtrHolder{}),
		"mutual-pointers": reflect.TypeOf(struct{ P ZMutPtrA }{}), "pointer-into-pointer-loop": reflect.TypeOf(struct{ P ZEntry }{}), "pointer-to-own-list": reflect.TypeOf(struct{ P ZPtrToOwnList }{}), "nil-embedded-named": reflect.TypeOf(ZNilEmbNamed{})} {
		done := make(chan struct{})
		go func() { TypeMapOf(typ); ExtractTypeNameMap(reflect.New(typ).Interface()); close(done) }()
		select {
		case <-done:
			r.ok("selfref/" + name)
		case <-time.After(30 * time.Second):
			r.fail("selfref/"+name, "did not terminate")
		}
	}
	r.done("6 named list/map/pointer types that contain themselves or each other, a struct embedding a nil pointer to a custom-named type; 8 zoo types (recursive, mutually recursive, slices of slices, maps of pointers, custom-named with value and pointer receiver, embedding a custom-named struct, a type named like one inside time.Time) x witnesses {zero value, populated} x every other witness round-tripped with the extracted maps")
}

// ---------------------------------------------------------------- C17: the pool against a set model, every short history
type zPoolObj struct{ id int }

func siC17(r *siReport) {
	maxLen := siScale(7, 9)
	for size := 0; size <= 3; size++ {
		// a history is a sequence of operations: 0 = Get, k>0 = Return of the k-th object currently held
		var hist []int
		var run func() bool
		run = func() bool {
			made := 0
			p := newPool(size, func() interface{} { made++; return &zPoolObj{made} })
			var held []*zPoolObj
			idle := map[*zPoolObj]bool{}
			cn := fmt.Sprintf("pool/size=%d/%v", size, hist)
			step := func(f func()) bool {
				done := make(chan struct{})
				go func() { f(); close(done) }()
				select {
				case <-done:
					return true
				case <-time.After(5 * time.Second):
					r.fail(cn, "operation blocked")
					return false
				}
			}
			for _, op := range hist {
				if op == 0 {
					before := made
					var o *zPoolObj
					if !step(func() { o, _ = p.Get().(*zPoolObj) }) {
						return false
					}
					if o == nil {
						r.fail(cn, "Get returned no object")
						return false
					}
					for _, h := range held {
						if h == o {
							r.fail(cn, fmt.Sprintf("object %d handed out while it is held", o.id))
							return false
						}
					}
					if made > before {
						if len(idle) > 0 {
							// (allowed by the property only when the pool is empty)
							r.fail(cn, "a fresh object was made although the pool held returned ones")
							return false
						}
						if o.id != made {
							r.fail(cn, "Get made an object and handed out another")
							return false
						}
					} else {
						if !idle[o] {
							r.fail(cn, fmt.Sprintf("object %d handed out a second time (or never returned)", o.id))
							return false
						}
						delete(idle, o)
					}
					held = append(held, o)
				} else {
					o := held[op-1]
					held = append(held[:op-1:op-1], held[op:]...)
					if !step(func() { p.Return(o) }) {
						return false
					}
					if len(idle) < size {
						idle[o] = true
					}
				}
			}
			// drain: everything that was kept comes out once, and not more than size objects were kept
			kept := 0
			for {
				before := made
				var o *zPoolObj
				if !step(func() { o, _ = p.Get().(*zPoolObj) }) {
					return false
				}
				if made > before {
					break
				}
				kept++
				if o == nil || !idle[o] {
					r.fail(cn, "the drained pool hands out an object it should not hold (dropped, held or handed out before)")
					return false
				}
				delete(idle, o)
				if kept > size {
					r.fail(cn, "more objects retained than the configured size")
					return false
				}
			}
			if len(idle) != 0 {
				r.fail(cn, fmt.Sprintf("%d returned objects were lost although there was room", len(idle)))
				return false
			}
			r.ok(cn)
			return true
		}
		var rec func(heldN int)
		rec = func(heldN int) {
			if !run() || len(hist) >= maxLen {
				return
			}
			hist = append(hist, 0)
			rec(heldN + 1)
			hist = hist[:len(hist)-1]
			for k := 1; k <= heldN; k++ {
				hist = append(hist, k)
				rec(heldN - 1)
				hist = hist[:len(hist)-1]
			}
		}
		rec(0)
	}
	// the library's pools: fresh objects are usable and own their default maps; a given map is the one used
	{
		type T struct{ A int32 }
		nm := map[string]string{}
		tm := map[string]reflect.Type{}
		for _, withMaps := range []bool{false, true} {
			cn := fmt.Sprintf("pools/maps-given=%v", withMaps)
			var ep, dp, sp Pool
			if withMaps {
				ep, dp, sp = NewEncoderPool(2, nm), NewDecoderPool(2, tm), NewSerializerPool(2, tm, nm)
			} else {
				ep, dp, sp = NewEncoderPool(2, nil), NewDecoderPool(2, nil), NewSerializerPool(2, nil, nil)
			}
			e1, e2 := ep.Get().(*Encoder), ep.Get().(*Encoder)
			d1, d2 := dp.Get().(*Decoder), dp.Get().(*Decoder)
			s1, s2 := sp.Get().(Serializer), sp.Get().(Serializer)
			ok := true
			func() {
				defer func() {
					if x := recover(); x != nil {
						r.fail(cn, fmt.Sprintf("a fresh pooled object is not usable: %v", x))
						ok = false
					}
				}()
				if e1 == e2 || d1 == d2 || s1 == s2 || e1.nameMap == nil || d1.typMap == nil {
					r.fail(cn, "fresh objects are not distinct or lack their maps")
					ok = false
					return
				}
				same := func(a, b interface{}) bool { return reflect.ValueOf(a).Pointer() == reflect.ValueOf(b).Pointer() }
				if withMaps {
					if !same(e1.nameMap, nm) || !same(e2.nameMap, nm) || !same(d1.typMap, tm) || !same(d2.typMap, tm) {
						r.fail(cn, "a pooled object does not use the map the pool was given")
						ok = false
						return
					}
				} else if same(e1.nameMap, e2.nameMap) || same(d1.typMap, d2.typMap) {
					r.fail(cn, "two fresh objects of a pool made without maps share one default map")
					ok = false
					return
				}
				e1.RegisterNameType("T", "com.zoo.T")
				d1.RegisterType("com.zoo.T", reflect.TypeOf(T{}))
				if !withMaps {
					if _, has := e2.nameMap["T"]; has {
						r.fail(cn, "a registration on one fresh encoder is seen by another")
						ok = false
						return
					}
				}
				var buf bytes.Buffer
				if err := e1.WriteTo(&buf, &T{7}); err != nil {
					r.fail(cn, "encode with a fresh pooled encoder: "+err.Error())
					ok = false
					return
				}
				if out, err := d1.Decode(buf.Bytes()); err != nil || !siEqual(out, &T{7}) {
					r.fail(cn, fmt.Sprintf("decode with a fresh pooled decoder: %v %v", out, err))
					ok = false
					return
				}
				if bs, err := s1.ToBytes(int32(5)); err != nil || len(bs) != 1 {
					r.fail(cn, fmt.Sprintf("fresh pooled serializer: %v %v", bs, err))
					ok = false
				}
			}()
			if ok {
				r.ok(cn)
			}
		}
	}
	r.done(fmt.Sprintf("every history of Get/Return operations up to length %d on pools of size 0..3 against a set model (who holds what, what is idle, nothing kept beyond the size, nothing handed out twice, no operation blocks); fresh objects of the three library pools with and without maps", maxLen))
}

func TestGovcStandin(t *testing.T) {
	id := os.Getenv("GOVC_STANDIN")
	r := &siReport{id: id, distinct: map[string]bool{}}
	switch id {
	case "C01", "C07", "C08", "C10":
		siC01(r)
	case "C02", "C03":
		siC03(r)
	case "C04":
		siC04(r)
	case "C05":
		siC05(r)
	case "C06":
		siC06(r)
	case "C09":
		siC09(r)
	case "C11":
		siC11(r)
	case "C13":
		siC13(r)
	case "C14":
		siC14(r)
	case "C15":
		siC15(r)
	case "C16":
		siC16(r)
	case "C17":
		siC17(r)
	default:
		fmt.Println("STANDIN-SUMMARY", id, "cases=0 distinct=0 fail=0 bound=none")
	}
}
