#!/bin/sh
# usage: tools_seed_run.sh [seed-dir ...]   — applies each seeded change to /repo, runs the property's quick check, reverts.
cd /verif
[ $# -eq 0 ] && set -- seeded/C*
if [ -n "$(git -C /repo status --porcelain)" ]; then echo "REFUSING: /repo has uncommitted changes"; exit 2; fi
for d in "$@"; do
  d=${d%/}
  prop=$(python3 -c "import json;print(json.load(open('$d/meta.json'))['property'])")
  props=${SEED_PROPS:-$prop}
  if ! git -C /repo apply --exclude="MUTANTS/*" /verif/$d/patch.diff 2>/dev/null; then echo "$d: patch does not apply"; continue; fi
  for p in $props; do
    out=$(./check $p quick 2>&1); rc=$?
    nv=$(echo "$out" | grep -c '^VIOLATION')
    echo "$d [$p]: exit=$rc violations=$nv $(echo "$out" | grep '^VIOLATION' | head -2 | sed 's/replay=[^ ]* //' | tr '\n' ';')$(echo "$out" | grep 'ENGINE-ERROR\|UNDECIDED' | head -2 | tr '\n' ';')"
  done
  git -C /repo checkout -- . 
done
