#!/bin/sh
# usage: tools_seed_run.sh [seed-dir ...]
# Applies each seeded change to a scratch copy of /repo (never to /repo itself), runs the property's quick check on
# that copy, and removes the copy.  Evidence and replays of these runs go to a scratch directory.
# SEED_PROPS="C01 C05" overrides the property list; SEED_JOBS=n runs n seeds at a time (default 1: the solver timeouts are wall-clock, an overloaded machine turns proofs into timeouts).
cd /verif
export GOFLAGS=-mod=mod GOPROXY=off GOSUMDB=off GOTOOLCHAIN=local
[ $# -eq 0 ] && set -- seeded/C*
out=$(mktemp -d /tmp/govc-seed-out-XXXXXX)
base=$(mktemp -d /tmp/govc-seed-base-XXXXXX)   # one snapshot of /repo for the whole run
rsync -a --exclude .git /repo/ $base/
one() {
  d=${1%/}
  prop=$(python3 -c "import json;print(json.load(open('$d/meta.json'))['property'])")
  props=${SEED_PROPS:-$prop}
  scratch=$(mktemp -d /tmp/govc-seed-repo-XXXXXX)
  rsync -a $base/ $scratch/
  if ! git -C $scratch apply --exclude="MUTANTS/*" /verif/$d/patch.diff 2>/dev/null; then echo "$d: patch does not apply"; rm -rf $scratch; return; fi
  for p in $props; do
    o=$out/$(basename $d)-$p; mkdir -p $o
    res=$(./bin/govc check -prop $p -tier quick -repo $scratch -verif /verif -out $o 2>&1); rc=$?
    nv=$(echo "$res" | grep -c '^VIOLATION')
    echo "$d [$p]: exit=$rc violations=$nv $(echo "$res" | grep '^VIOLATION' | head -2 | sed 's/replay=[^ ]* //' | tr '\n' ';')$(echo "$res" | grep 'ENGINE-ERROR\|UNDECIDED' | head -2 | tr '\n' ';')" | cut -c1-300
  done
  rm -rf $scratch
}
jobs=${SEED_JOBS:-1}
n=0
for d in "$@"; do
  one "$d" &
  n=$((n+1))
  if [ $((n % jobs)) -eq 0 ]; then wait; fi
done
wait
rm -rf $out $base
