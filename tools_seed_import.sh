#!/bin/sh
# usage: tools_seed_import.sh <property-id> <worktree-with-MUTANTS>
# Validates each mutant against the current /repo HEAD in a scratch worktree and stores it under /verif/seeded/.
export GOFLAGS=-mod=mod GOPROXY=off GOSUMDB=off GOTOOLCHAIN=local
id=$1; src=$2
for k in 1 2; do
  d=$src/MUTANTS/m$k
  [ -f $d/patch.diff ] || { echo "$id m$k: no patch"; continue; }
  wt=/tmp/seedchk-$id-$k
  rm -rf $wt; git -C /repo worktree add --detach $wt HEAD >/dev/null 2>&1
  cd $wt
  cp $d/zz_demo_test.go .
  base=$(go test -vet=off -count=1 -run 'ZZ|Demo|C[0-9][0-9]' . 2>&1 | tail -1)
  if git apply --exclude='MUTANTS/*' $d/patch.diff 2>/dev/null; then
    rm zz_demo_test.go
    suite=$(go test -vet=off -count=1 ./... 2>&1 | grep -v "no test files" | tail -1)
    cp $d/zz_demo_test.go .
    mut=$(go test -vet=off -count=1 -run 'ZZ|Demo|C[0-9][0-9]' . 2>&1 | tail -1)
    echo "$id m$k: base=[$base] suite-with-mutant=[$suite] demo-with-mutant=[$mut]"
  else
    echo "$id m$k: PATCH DOES NOT APPLY to current HEAD; base=[$base]"
  fi
  cd /; git -C /repo worktree remove --force $wt
done
