#!/bin/sh
# usage: tools_seed_import.sh <property-id> <worktree-with-MUTANTS> <first-new-index>
# Validates each mutant of the worktree against the current /repo HEAD in a scratch worktree (suite passes with it,
# demonstration fails with it and passes without) and stores the confirmed ones as /verif/seeded/<id>-m<k>/.
export GOFLAGS=-mod=mod GOPROXY=off GOSUMDB=off GOTOOLCHAIN=local
id=$1; src=$2; n=${3:-1}
for k in 1 2; do
  d=$src/MUTANTS/m$k
  [ -f $d/patch.diff ] || { echo "$id m$k: no patch"; continue; }
  wt=/tmp/seedchk-$id-$k
  rm -rf $wt; git -C /repo worktree add --detach $wt HEAD >/dev/null 2>&1
  cd $wt
  tests=$(grep -ho '^func Test[A-Za-z0-9_]*' $d/zz_demo_test.go | sed 's/func //' | tr '\n' '|' | sed 's/|$//')
  cp $d/zz_demo_test.go .
  base=$(go test -vet=off -count=1 -run "^($tests)\$" . 2>&1 | tail -1)
  verdict=reject
  if git apply --exclude='MUTANTS/*' $d/patch.diff 2>/dev/null; then
    rm zz_demo_test.go
    suite=$(go test -vet=off -count=1 ./... 2>&1 | grep -v "no test files" | tail -1)
    cp $d/zz_demo_test.go .
    mut=$(go test -vet=off -count=1 -run "^($tests)\$" . 2>&1 | tail -1)
    case "$base" in ok*) case "$suite" in ok*) case "$mut" in FAIL*) verdict=keep;; esac;; esac;; esac
    echo "$id m$k -> m$n: base=[$base] suite-with-mutant=[$suite] demo-with-mutant=[$mut] => $verdict"
  else
    echo "$id m$k: PATCH DOES NOT APPLY to current HEAD; base=[$base]"
  fi
  cd /; git -C /repo worktree remove --force $wt
  if [ $verdict = keep ]; then
    out=/verif/seeded/$id-m$n; mkdir -p $out
    cp $d/patch.diff $out/patch.diff; cp $d/zz_demo_test.go $out/zz_demo_test.go; cp $d/notes.md $out/notes.md 2>/dev/null
    python3 - "$id" "$out" "$tests" <<'PY'
import json,sys,subprocess
pid,out,tests=sys.argv[1:4]
head=subprocess.check_output(['git','-C','/repo','log','--format=%h','-1']).decode().strip()
files=[l.split(' b/')[1].strip() for l in open(out+'/patch.diff') if l.startswith('diff --git')]
title=''
try:
    for l in open(out+'/notes.md'):
        if l.strip().startswith('#'): title=l.strip('# \n'); break
except Exception: pass
json.dump({"property":pid,"title":title,"files":files,"demo_tests":tests.split('|'),"validated_against":head,"source":"independent sub-agent, round of the import (property text and scratch worktree only)"},open(out+'/meta.json','w'),indent=1)
PY
    n=$((n+1))
  fi
done
